#!/usr/bin/env python3
"""Regenerates MANIFEST.json from the table below (keeps it valid at all times)."""
import json, subprocess
props = [json.loads(l) for l in open('/verif/properties.jsonl')]
hook_commit = "c96f808"
CHECKS = {
 "C01": ("(i) binaries compiled from generated sources in ANM / STD / MSG / END / mission MSG / pre-TH10 ECL + timelines over the real built-in tables of 5-8 games per format (valid metadata, calls with boundary immediates, registers, Shift-JIS strings, time labels incl. negative, gotos, loops, if/else, counted loops, interrupts, difficulty labels, assignments) and (ii) every bundled test binary, x decompile-option subsets x line widths x name-only user mapfiles: decompile -> print -> compile (original as image source for ANM) gives the same bytes unless decompile warned.",
         "Sources whose own compilation warns (e.g. unused MSG script) are outside the generated domain. Known finding: @blob literals whose length is not a multiple of 4 (TH06 ECL ins_93 under --no-arguments). Embedded images are covered by C17.",
         "property-based round-trip testing (compile/decompile/compile) over grammar-based file generators + bundled corpus"),
 "C02": ("Generated-input search: random register-language configurations x typed program bodies x 8 register valuations; the emitted raw instructions are executed by an independent register machine (M-machine) and compared with truth's reference interpreter on the flattened source (call log with bit-exact arguments and real times, final time, final registers).",
         "Trusts AstVm as the source-side reference (named by the property) and the harness's own M-machine/M-ops. Programs bounded (<= ~30 statements, depth 3); time labels non-decreasing; NaN/inf and out-of-range float->int casts excluded.",
         "property-based differential testing against an independent machine model (proptest)"),
 "C03": ("Sources for ANM / STD / MSG / END / mission / pre-TH10 ECL whose metadata fields take boundary values of 8/16/32-bit fields and whose scripts are raw-blob instructions with boundary times, opcodes, masks, arg0 values and blob lengths (0..65536 bytes); files with 255..70000 objects / sprites / table entries / subs (count fields); and the general generated sources of C01. Whenever compile succeeds: (1) the written bytes read back (same game) to an in-memory file that equals, field for field, the one the compiler produced, (2) every requested instruction (time, opcode, mask, arg0, blob) equals the re-read instruction at the same position, (3) every metadata value requested in the source equals the value in the decompiled re-read file wherever that field is printed; a rejection must carry an error diagnostic.",
         "Representation-only differences are normalised (script/sprite names, sprite ids that equal the automatic numbering, absent @arg0 = 0, TH06 ECL parameter masks which that format does not store). Sprite ids are unique within an entry (the reader keeps one sprite per id and warns). Offsets > 4 GiB are out of reach.",
         "property-based round-trip testing (compile / write / read back) with boundary-value generators and a requested-value oracle"),
 "C04": ("Texts = valid generated sources for ANM / STD / MSG / END / mission / pre-TH10 ECL | full-grammar random programs | programs nested up to 256 deep | bundled .spec files | short raw byte strings, after 0..4 token-level mutations (delete / duplicate / swap / move / class-preserving replacement / insertion from a vocabulary of keywords, operators, extreme literals, malformed strings, pseudo-arguments, labels / wrapping in up to 256 parens, unary operators, brackets, braces) and byte-level mutations (invalid UTF-8, NUL, BOM, truncation), compiled by the same or another tool and game; and mapfiles (built-in tables or generated languages rendered as text, mutated per line with signature / intrinsic / key / section vocabularies) loaded from disk before compiling a valid source. Ok must come without error diagnostics, Err with at least one; a panic (incl. a diagnostic that fails to render), abort, stack overflow or allocation request > 2 GiB is a violation.",
         "In-process mirror of the CLI compile commands (files.rs) on an 8 MiB stack like the CLI's main thread. A hang (60 s watchdog) is reported as inconclusive.",
         "grammar-based and mutation-based fuzzing with a crash / diagnostic-consistency oracle (proptest-driven)"),
 "C05": ("Generated-input search over configurations with scratch pools of 0..4 registers per type and an optional anti-scratch instruction; invariants checked on every successful compile from the debug-info bindings and the decoded register operands: general-use, unmentioned (generator's knowledge of every mention), no sharing between locals with overlapping lexical scope, no unknown register in the output; required rejections (anti-scratch, pool exhaustion) must carry an error diagnostic.",
         "Temp x temp liveness is not observable without a hook (left to C02's behavioural check). Lexical scopes are recovered from the generator's own printing conventions.",
         "property-based testing with an invariant oracle over the compile result"),
 "C06": ("Generated structured bodies (depth <= 4/5) x both counting-jump flavours x 8 valuations; AstVm before vs after passes::desugar_blocks::run: call log, final time, real time, all registers.",
         "Differential: an error common to AstVm on both sides is invisible. Time labels non-decreasing, times counts >= 0, no difficulty labels nested inside a labelled structured statement (DESIGN.md 5b).",
         "property-based differential testing (same interpreter before/after the pass)"),
 "C07": ("Instruction streams from lowered structured programs and from random/shaped jump graphs (shared targets, jumps into bodies, explicit times, interrupt labels, difficulty tags) x 8 valuations: AstVm of decompile(blocks=false) vs decompile(blocks=true) (flattened by desugar_blocks when the recovered form contains a jump into a block), plus structural invariants: referenced labels defined exactly once, explicit-time jumps kept, time-label statements unchanged.",
         "Differential with AstVm on both sides. Explicit jump times are the previous instruction's time (as in game files); times non-decreasing.",
         "property-based differential testing + structural invariants"),
 "C08": ("(P) ASTs parsed from generated text over the full grammar and (D) ASTs produced by the decompiler from generated instruction streams (all int formats, every f32 class, strings, unknown signatures, difficulty labels, time labels), each printed at 12 sampled widths (thorough: all of 1..200): the text parses, equals the AST after folding literal signs (plus a literal bit-pattern trace), and printing the re-parsed AST gives the same text; for D the script is the same at every width.",
         "ASTs are compared with truth's own PartialEq (spans ignored, ids equal because both sides are parsed in fresh contexts). Known finding: re-print of literals >= 2^31 is not idempotent (excluded from the search, replayed every run).",
         "property-based round-trip testing (print/parse) over a grammar-based generator"),
 "C09": ("Generated well-typed programs and single-point mutants (literal type, variable of the other type, sigil add/flip/remove, cast wrap/unwrap, operator change, branch types, call arity, declaration type, float conditions/counts/clobbers, assignment target) at uniformly chosen nodes incl. nested free blocks, loop bodies, conditions, declarations, call arguments, const items: Ok/Err of passes::type_check::run == verdict of the reference typer (both directions); for accepted programs the checker's expression types == the types of AstVm-evaluated values.",
         "The reference typer implements the rules listed in the property statement; function items are not generated.",
         "property-based mutation testing against a reference typer"),
 "C10": ("Generated scope trees over a pool of 5 names plus register aliases and builtin consts (shadowing, forward references to consts, same-block redeclaration, use in own initialiser, locals inside const initialisers, aliases in const context): Ok/Err of resolve_names and the definition classes of every identifier occurrence (matched by byte offset) vs an independent scope model; and injective renaming of all declarations leaves the lowered instructions (and Ok/Err) unchanged.",
         "One shape is treated as unspecified (a local shadowing an outer const, used inside a const initialiser: the code's documentation and behaviour disagree). Function items are not generated.",
         "property-based testing against a reference scope model + metamorphic renaming"),
 "C11": ("Exhaustive operator x boundary-operand tables (bit-exact against M-ops), random constant trees, partially constant trees under AstVm before/after const_simplify over 8 valuations, const chains (named vs inlined lowering, debug-info values, cycles, undefined operations must be diagnosed).",
         "Logical operators compared by truthiness only; float->int casts outside i32 excluded; NaN payloads not compared.",
         "exhaustive boundary tables + property-based testing against a reference evaluator"),
 "C12": ("Generated signatures (all letters and attributes, up to 16 parameters, padding anywhere) x argument lists (width-boundary values fitting and not, registers in allowed and immediate-only positions, Shift-JIS strings around block/buffer boundaries, consecutive calls for the furigana carry): emitted blob/mask/arg0 == M-codec's encoding; decompiled arguments == the originals; re-lowering the decompiled call reproduces the bytes; every input that cannot round-trip must produce a diagnostic or a failed compile.",
         "M-codec is written from the documentation comments of the signature letters; it shares encoding_rs with truth for Shift-JIS (the codec is not what is under test). Jump arguments (o, t) are exercised by C02/C07/C13 instead.",
         "property-based testing against an independent codec model + round trip"),
 "C13": ("Compile side: label sequences (absolute, relative, negative, constant-expression, wrapping) in nested blocks vs the label-arithmetic model on uniquely tagged instructions. Decompile side: raw streams with arbitrary stored times (and jumps) -> emitted labels re-evaluated by the model -> printed text recompiled -> stored times reproduced.",
         "Uses the generic TestLanguage (i32 times); field-width narrowing in real formats belongs to C03.",
         "property-based testing against a reference model + round trip"),
 "C14": ("(a) flag-definition sets x all 256 masks (exhaustive per set): mask -> decompiled label -> harness's own label reader and truth's parser both give the mask back; (b) statements with 1..3 (nested) switches of 2..8 cases under sampled labels: per-difficulty exactly-one-copy rule with case values and default-on bits; (c) raw streams with arbitrary masks -> decompile with switch recognition -> recompile -> identical per-difficulty call logs for d = 0..7.",
         "Flag sets are sampled (thorough: all 256 default-on patterns); TestLanguage instruction format.",
         "exhaustive mask sweep per generated configuration + property-based round trip / model check"),
 "C16": ("Byte strings = bundled test binaries | binaries compiled from generated ANM (with embedded dummy images) / STD / MSG / END / mission / pre-TH10 ECL sources | short raw strings, after 0..4 mutations (truncation at any offset; 8/16/32-bit fields set to boundary values, to the file length +-4, +-small deltas; chunk delete / insert / copy), read as the same or another game, under sampled decompile options, plus image extraction for ANM; and every truncation of every bundled file. read + decompile + print (+ extract) must return Ok or Err with an error-severity diagnostic naming the file.",
         "Violations: panic, abort, stack overflow, a single allocation request > 512 MiB (requests > 2 GiB are refused by the harness's allocator and abort the shard: reported as a violation with the pending case). A hang (60 s watchdog) is reported as inconclusive. TH10+ ECL is not read by this version of truth.",
         "mutation-based fuzzing of valid files with a crash / diagnostic oracle (proptest-driven, structure-aware mutations)"),
}
PENDING = "check not built yet in this revision (planned: see DESIGN.md section 5)"
m = {"version": 1,
 "setup_cmd": "cd harness && CARGO_NET_OFFLINE=true cargo build --release --offline",
 "hooks": {"guard": "truth_verif (cargo feature of the truth crate, off by default)",
           "enable": "harness/Cargo.toml: truth = { path = \"/repo\", features = [\"truth_verif\"] }",
           "baseline_off_cmd": "cd /repo && cargo test --workspace --no-fail-fast --offline",
           "source_commits": [hook_commit], "add_only": True},
 "engines": [{"name": "tv", "path": "harness/", "serves_properties": sorted(CHECKS.keys()),
              "kind_free_text": "Rust harness: proptest TestRunner over choice tapes (fixed seeds, shrinking), 16 child-process shards with crash isolation, independent oracle models (M-machine, M-ops, M-time, M-diff, M-typer), python driver ./check"}],
 "checks": [], "not_applicable": [],
 "notes": "See DESIGN.md. Every check: ./check <ID> [--tier quick|thorough] [--replay FILE]; VERIF_SEED respected; exit 2 = inconclusive (hang, allocation limit, degenerate generator)."}
for p in props:
    pid = p['id']
    if pid in CHECKS:
        text, note, tech = CHECKS[pid]
        m["checks"].append({"property_id": pid, "quick_cmd": f"./check {pid} --tier quick", "thorough_cmd": f"./check {pid} --tier thorough",
            "evidence_file": f"evidence/{pid}.json", "replay_cmd_template": f"./check {pid} --replay {{path}}", "engine": "tv",
            "level_claimed": {"category": "exploration", "text": text + " A pass means no violation on the counted cases.", "design_ref": f"DESIGN.md section 5, {pid}"},
            "level_note": note, "technique": tech})
    else:
        m["not_applicable"].append({"property_id": pid, "reason": PENDING})
json.dump(m, open('/verif/MANIFEST.json', 'w'), indent=1)
print("checks:", [c['property_id'] for c in m['checks']])
