#!/bin/bash
# usage: survey.sh ID CASES seeds... -- dev helper: run shards in survey mode (continue after failures), list distinct signatures
ID=$1; CASES=$2; shift; shift
D=/dev/shm/tv-survey; mkdir -p $D
for s in "$@"; do export RUST_BACKTRACE=0; rm -f $D/$ID-$s.json; TV_SURVEY=1 /verif/harness/target/release/tv run $ID --seed $s --cases $CASES --known /verif/known_findings.json --out $D/$ID-$s.json >/dev/null 2>$D/$ID-$s.err & done; wait
python3 /verif/harness/survey_agg.py "$ID" "$@"
