import json,sys,os
ID=sys.argv[1]; agg={}; tot=0
for s in sys.argv[2:]:
    p=f'/dev/shm/tv-survey/{ID}-{s}.json'
    if not os.path.exists(p) or os.path.getsize(p)==0:
        print('seed',s,'DIED:',open(f'/dev/shm/tv-survey/{ID}-{s}.err').read()[:200]); continue
    d=json.load(open(p)); tot+=d['evaluations']
    for e in d.get('survey',[]):
        a=agg.setdefault(e['signature'],[0,e['case'],e['message']]); a[0]+=e['count']
        if len(json.dumps(e['case']))<len(json.dumps(a[1])): a[1]=e['case']; a[2]=e['message']
    if d.get('failure'): print('seed',s,'FAIL',d['failure']['signature'])
print('evaluations',tot)
json.dump(agg,open(f'/dev/shm/tv-survey/{ID}-agg.json','w'),indent=1)
for k,(n,c,m) in sorted(agg.items(), key=lambda kv:-kv[1][0]): print(n,k,'|',m[:160].replace('\n',' / '))
