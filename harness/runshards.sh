#!/bin/bash
# usage: runshards.sh ID CASES [seeds...]  -- dev helper: run shards in parallel, print compact summaries
ID=$1; CASES=$2; shift; shift
for s in "$@"; do (/verif/harness/target/release/tv run $ID --seed $s --cases $CASES --known /verif/known_findings.json --out /dev/shm/rs-$ID-$s.json >/dev/null 2>&1; python3 -c "
import json,sys
d=json.load(open('/dev/shm/rs-$ID-$s.json'))
print('seed $s', {k:d[k] for k in ['evaluations','passes','discards','known_hits']}, 'nontrivial', len(d['nontrivial_hashes']))
print('   labels', d['labels'])
f=d['failure']
if f: print('FAIL', f['signature']); print(f['message'][:1200]); print(f['case'].get('text','')[:1500])
"; rm -f /dev/shm/rs-$ID-$s.json) & done; wait
