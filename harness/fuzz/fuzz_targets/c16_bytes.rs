//! libFuzzer target for C16: byte 0 picks (format, game), byte 1 the decompile options / extraction,
//! the rest is the file.  The oracle is the same `robustness` function the proptest check uses.
#![no_main]
use libfuzzer_sys::fuzz_target;
use tv::engine::{CheckCtx, Known};
use tv::files::Fmt;
use tv::gen::files::games_for;

static INIT: std::sync::Once = std::sync::Once::new();

fuzz_target!(|data: &[u8]| {
    INIT.call_once(|| { tv::setup(); });
    if data.len() < 2 { return; }
    let fmts = [Fmt::Anm, Fmt::Std, Fmt::Msg, Fmt::End, Fmt::Mission, Fmt::Ecl];
    let fmt = fmts[(data[0] >> 4) as usize % fmts.len()];
    let games = games_for(fmt);
    let game = games[(data[0] & 15) as usize % games.len()];
    let known = Known::load(Some("/verif/known_findings.json"), "C16");
    let known: &'static Known = Box::leak(Box::new(known));
    let mut ctx = CheckCtx::new(known, false);
    if let Err(f) = tv::props::c16::robustness(fmt, game, &data[2..], (data[1] & 31) as u32, data[1] & 32 != 0, &mut ctx) {
        if !known.matches(&f.signature) { eprintln!("C16 violation: {}\n{}", f.signature, f.message); std::process::abort(); }
    }
});
