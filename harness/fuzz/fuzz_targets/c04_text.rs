//! libFuzzer target for C04: byte 0 picks (tool, game), the rest is the source text.
#![no_main]
use libfuzzer_sys::fuzz_target;
use tv::engine::{CheckCtx, Known};
use tv::files::Fmt;
use tv::gen::files::games_for;

static INIT: std::sync::Once = std::sync::Once::new();

fuzz_target!(|data: &[u8]| {
    INIT.call_once(|| { tv::setup(); });
    if data.is_empty() { return; }
    let fmts = [Fmt::Anm, Fmt::Std, Fmt::Msg, Fmt::End, Fmt::Mission, Fmt::Ecl];
    let fmt = fmts[(data[0] >> 4) as usize % fmts.len()];
    let games = games_for(fmt);
    let game = games[(data[0] & 15) as usize % games.len()];
    let known = Known::load(Some("/verif/known_findings.json"), "C04");
    let known: &'static Known = Box::leak(Box::new(known));
    let mut ctx = CheckCtx::new(known, false);
    let failure = match tv::props::c04::run_compile(fmt, game, &data[1..], &[]) {
        Err(p) => Some(p.to_failure("c04:source:")),
        Ok(v) => tv::props::c04::judge(fmt, &v, &mut ctx).err(),
    };
    if let Some(f) = failure { if !known.matches(&f.signature) { eprintln!("C04 violation: {}\n{}", f.signature, f.message); std::process::abort(); } }
});
