#!/bin/bash
# Optional coverage-guided campaign (libFuzzer via cargo-fuzz) for C16 (c16_bytes) or C04 (c04_text).
# usage: fuzz/run.sh c16_bytes|c04_text RUNS [SEED] [WORKERS]
# The corpus lives in /dev/shm and is deleted afterwards; a crashing input is copied to /verif/replays/.
set -u
T=$1; RUNS=${2:-200000}; SEED=${3:-1}; W=${4:-8}
cd "$(dirname "$0")/.."
export CARGO_NET_OFFLINE=true RUST_BACKTRACE=0
C=/dev/shm/tv-fuzz-$T-$$; A=$C-artifacts; mkdir -p $C $A
python3 - "$T" "$C" <<'PY'
import sys, os, glob
t, c = sys.argv[1], sys.argv[2]
fm = {'anm': 0, 'std': 1, 'msg': 2}
games = {'anm': ["th06","th07","th08","th095","th10","th12","th14","th18"], 'std': ["th06","th08","th095","th12","th17"], 'msg': ["th06","th08","th09","th11","th12","th17","th18"]}
n = 0
if t == 'c16_bytes':
    for p in glob.glob('/repo/tests/integration/bits-2-bits/*') + glob.glob('/repo/tests/integration/resources/*.anm'):
        ext = p.rsplit('.', 1)[-1]
        if ext not in fm: continue
        g = os.path.basename(p).split('-')[0]
        gi = games[ext].index(g) if g in games[ext] else 0
        open(os.path.join(c, 'seed%d' % n), 'wb').write(bytes([(fm[ext] << 4) | gi, 0]) + open(p, 'rb').read()); n += 1
else:
    for p in glob.glob('/repo/tests/integration/resources/*.spec'):
        open(os.path.join(c, 'seed%d' % n), 'wb').write(bytes([0x05]) + open(p, 'rb').read()); n += 1
    for i, (f, txt) in enumerate([(0x20, 'meta { table: { 0: {script: "script0"} } }\nscript script0 { ins_0(); }\n'), (0x10, 'meta { unknown: 0, stage_name: "a", bgm: [{path: "a", name: "a"}, {path: "a", name: "a"}, {path: "a", name: "a"}, {path: "a", name: "a"}], objects: {}, instances: [] }\nscript main { }\n'), (0x50, 'script timeline0 { }\nvoid Sub0() { int x = 3; loop { ins_0(); } }\n'), (0x40, 'entry { stage: 1, scene: 1, face: 0, point: 0, text: ["a", "b", "c"] }\n')]):
        open(os.path.join(c, 'hand%d' % i), 'wb').write(bytes([f]) + txt.encode()); n += 1
print('seeds:', n)
PY
cargo +nightly fuzz run -O -s none $T $C -- -runs=$RUNS -seed=$SEED -len_control=0 -max_len=65536 -artifact_prefix=$A/ -workers=$W -jobs=$W -print_final_stats=1 > $C.log 2>&1
RC=$?
grep -h "stat::number_of_executed_units\|cov:" $C.log fuzz-*.log 2>/dev/null | tail -3
if ls $A/crash-* >/dev/null 2>&1; then
  mkdir -p /verif/replays
  for f in $A/crash-*; do cp $f /verif/replays/fuzz-$T-$(basename $f); echo "FUZZ-FINDING target=$T input=/verif/replays/fuzz-$T-$(basename $f)"; done
  grep -h "violation:" fuzz-*.log $C.log 2>/dev/null | sort | uniq -c | head
fi
rm -rf $C $A $C.log fuzz-*.log
exit $RC
