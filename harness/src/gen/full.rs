//! Full-grammar source text generator (syntactically valid, not necessarily well-typed or well-scoped):
//! items, metas, consts, functions, every statement and expression form, every literal spelling.
use crate::engine::Tape;
use super::prog::{fmt_f32, fmt_str_lit};

pub struct FullCfg { pub special_calls: bool, pub items: bool, pub max_depth: usize, pub big_int_literals: bool }

pub struct FullGen<'a, 'b> { pub t: &'a mut Tape<'b>, pub cfg: FullCfg, budget: usize, pub feats: Vec<&'static str>, loops: usize }

const IDENTS: &[&str] = &["a", "b", "foo", "x1", "I0", "F0", "pos", "lbl", "default", "case", "anim", "script0", "mapfile", "entry_", "PI", "true", "false", "INF", "_x", "A_B"];
const STRS: &[&str] = &["", "a", "hello world", "line\nbreak", "tab\\slash", "quote\"inside", "nul\0byte", "cr\rret", "日本語テキスト", "ｶﾀｶﾅ", "emoji😀", "a very long string literal that goes on and on and on to force wrapping decisions in the formatter ok", "{}:;", "//not a comment", "/* nor this */"];

impl<'a, 'b> FullGen<'a, 'b> {
    pub fn new(t: &'a mut Tape<'b>, cfg: FullCfg) -> Self { FullGen { t, cfg, budget: 60, feats: vec![], loops: 0 } }
    fn feat(&mut self, f: &'static str) { if !self.feats.contains(&f) { self.feats.push(f); } }
    fn ident(&mut self) -> String { (*self.t.pick(IDENTS)).to_string() }

    pub fn int_lit(&mut self) -> String {
        let v: u32 = match self.t.below(8) {
            0 => 0, 1 => self.t.below(10) as u32, 2 => *self.t.pick(&[255u32, 256, 65535, 65536, 0x7fffffff]),
            3 => *self.t.pick(&[0x80000000u32, 0xffffffff, 0x80000001, 4294967295]),
            _ => self.t.raw() >> (self.t.below(32) as u32),
        };
        let v = if !self.cfg.big_int_literals && v >= 0x80000000 { v >> 1 } else { v };
        if v >= 0x80000000 { self.feat("int>=2^31"); }
        match self.t.below(6) {
            0 => { self.feat("hex"); format!("0x{:x}", v) }
            1 => { self.feat("hex"); format!("0X{:X}", v) }
            2 => { self.feat("bin"); format!("0b{:b}", v) }
            _ => format!("{}", v),
        }
    }
    pub fn float_lit(&mut self) -> String {
        let x: f32 = match self.t.below(8) {
            0 => 0.0, 1 => 1.0, 2 => 0.5, 3 => *self.t.pick(&[f32::MAX, f32::MIN_POSITIVE, 1e-45, 16777216.0, 0.1, 3.4028235e38]),
            4 => { self.feat("subnormal"); f32::from_bits(1 + self.t.below(1000) as u32) }
            _ => { let b = self.t.raw(); let f = f32::from_bits(b & 0x7fffffff); if f.is_finite() { f } else { 2.5 } }
        };
        match self.t.below(6) {
            0 if x.fract() == 0.0 && x < 1e9 => { self.feat("float_f_suffix"); format!("{}f", x as i64) }
            1 => { self.feat("float_f_suffix"); format!("{}f", fmt_f32(x)) }
            2 if x.abs() < 1000.0 => { self.feat("rad"); format!("rad({})", fmt_f32(x)) }
            _ => fmt_f32(x),
        }
    }
    fn str_lit(&mut self) -> String { let s = *self.t.pick(STRS); if s.chars().any(|c| c as u32 > 127) { self.feat("multibyte_string"); } if s.contains(|c| matches!(c, '\n' | '\\' | '"' | '\0' | '\r')) { self.feat("escapes"); } fmt_str_lit(s) }

    fn var(&mut self) -> String {
        let sig = match self.t.below(4) { 0 => "$", 1 => "%", _ => "" };
        if self.t.chance(1, 3) { let n = match self.t.below(4) { 0 => -(self.t.below(20000) as i64), _ => self.t.below(20000) as i64 }; format!("{}REG[{}]", sig, n) } else { format!("{}{}", sig, self.ident()) }
    }

    pub fn expr(&mut self, depth: usize) -> String {
        if depth == 0 || self.budget == 0 { return self.atom(); }
        self.budget -= 1;
        match self.t.below(16) {
            0 | 1 => self.atom(),
            2..=4 => { let op = *self.t.pick(&["+", "-", "*", "/", "%", "==", "!=", "<", "<=", ">", ">=", "|", "^", "&", "||", "&&", "<<", ">>", ">>>"]); format!("{} {} {}", self.operand(depth - 1), op, self.operand(depth - 1)) }
            5 => { let op = *self.t.pick(&["-", "!", "~"]); if op == "-" { self.feat("unary_minus"); } let a = self.term(depth - 1); format!("{}{}", op, a) }
            6 => { let f = *self.t.pick(&["sin", "cos", "tan", "asin", "acos", "atan", "sqrt", "_S", "_f", "$", "%", "int", "float"]); format!("{}({})", f, self.expr(depth - 1)) }
            7 => { self.feat("ternary"); format!("{} ? {} : {}", self.operand(depth - 1), self.tern_rhs(depth - 1), self.tern_rhs(depth - 1)) }
            8 => { self.feat("diff_switch"); let n = 2 + self.t.below(5); let mut parts = vec![self.operand(depth - 1)]; for _ in 1..n { if self.t.bool() { parts.push(self.operand(depth - 1)); } else { self.feat("diff_switch_hole"); parts.push(String::new()); } } parts.join(":") }
            9 => { let v = self.var(); match self.t.below(4) { 0 => format!("++{}", v), 1 => format!("--{}", v), 2 => format!("{}++", v), _ => format!("{}--", v) } }
            10 => { let k = if self.t.bool() { "offsetof" } else { "timeof" }; format!("{}({})", k, self.ident()) }
            11 => self.call(depth - 1),
            12 => { self.feat("enum_const"); format!("{}.{}", self.ident(), self.ident()) }
            13 => format!("({})", self.expr(depth - 1)),
            _ => self.atom(),
        }
    }
    /// operand of a binary operator / ternary condition: anything without a top-level colon
    fn operand(&mut self, depth: usize) -> String {
        let e = self.expr(depth);
        if needs_parens_as_operand(&e) { format!("({})", e) } else { e }
    }
    fn tern_rhs(&mut self, depth: usize) -> String { let e = self.expr(depth); if has_toplevel(&e, ':') && !has_toplevel(&e, '?') { format!("({})", e) } else if has_toplevel(&e, '?') { e } else if needs_parens_as_operand(&e) { format!("({})", e) } else { e } }
    /// operand of a unary operator: a term
    fn term(&mut self, depth: usize) -> String { let e = self.expr(depth); if is_term(&e) { e } else { format!("({})", e) } }
    fn atom(&mut self) -> String {
        match self.t.below(6) { 0 | 1 => self.int_lit(), 2 => self.float_lit(), 3 => self.str_lit(), _ => self.var() }
    }
    fn call(&mut self, depth: usize) -> String {
        let name = if self.t.bool() { format!("ins_{}", self.t.below(1000)) } else { self.ident() };
        let mut args = vec![];
        if self.t.chance(1, 5) {
            self.feat("pseudo_args");
            let n = 1 + self.t.below(3);
            for _ in 0..n {
                let k = *self.t.pick(&["mask", "pop", "arg0", "nargs", "blob"]);
                let v = if k == "blob" { "\"00501c46 00000040\"".to_string() } else { self.operand(depth.min(1)) };
                args.push(format!("@{}={}", k, v));
            }
        }
        let n = self.t.below(4);
        for _ in 0..n { args.push(self.expr(depth)); }
        format!("{}({}{})", name, args.join(", "), if !args.is_empty() && self.t.chance(1, 6) { "," } else { "" })
    }

    pub fn block(&mut self, depth: usize, ind: usize) -> String {
        let n = self.t.below(5);
        let mut out = String::from("{\n");
        for _ in 0..n { out.push_str(&self.stmt(depth, ind + 1)); }
        out.push_str(&format!("{}}}", "    ".repeat(ind)));
        out
    }

    pub fn stmt(&mut self, depth: usize, ind: usize) -> String {
        let pad = "    ".repeat(ind);
        if self.budget == 0 { return format!("{}nop();\n", pad); }
        self.budget -= 1;
        let diff = if self.t.chance(1, 8) { self.feat("diff_label"); format!("{{\"{}\"}}: ", *self.t.pick(&["EN", "*", "0-1", "", "HL-X"])) } else { String::new() };
        let goto = |g: &mut Self| { let l = g.ident(); if g.t.chance(1, 3) { let t = g.t.below(100) as i64 - 20; format!("goto {} @ {}", l, t) } else { format!("goto {}", l) } };
        let d = depth.saturating_sub(1);
        match self.t.below(22) {
            0 | 1 => format!("{}{}{};\n", pad, diff, self.call(2)),
            2 | 3 => { let op = *self.t.pick(&["=", "+=", "-=", "*=", "/=", "%=", "|=", "^=", "&=", "<<=", ">>=", ">>>="]); format!("{}{}{} {} {};\n", pad, diff, self.var(), op, self.expr(3)) }
            4 => { let ty = *self.t.pick(&["int", "float", "var"]); let n = 1 + self.t.below(3); let vars: Vec<String> = (0..n).map(|_| if self.t.bool() { format!("{} = {}", self.ident(), self.expr(2)) } else { self.ident() }).collect(); format!("{}{}{} {};\n", pad, diff, ty, vars.join(", ")) }
            5 if depth > 0 => {
                let mut s = format!("{}{}{} ({}) {}", pad, diff, if self.t.chance(1, 4) { "unless" } else { "if" }, self.expr(2), self.block(d, ind));
                let n = self.t.below(3);
                for _ in 0..n { s.push_str(&format!(" else {} ({}) {}", if self.t.chance(1, 4) { "unless" } else { "if" }, self.expr(2), self.block(d, ind))); }
                if self.t.bool() { s.push_str(&format!(" else {}", self.block(d, ind))); }
                s.push('\n'); s
            }
            6 if depth > 0 => { let c = self.expr(2); self.loops += 1; let b = self.block(d, ind); self.loops -= 1; format!("{}{}while ({}) {}\n", pad, diff, c, b) }
            7 if depth > 0 => { self.loops += 1; let b = self.block(d, ind); self.loops -= 1; format!("{}{}do {} while ({});\n", pad, diff, b, self.expr(2)) }
            8 if depth > 0 => { let c = if self.t.bool() { format!("{} = ", self.var()) } else { String::new() }; let e = self.expr(2); self.loops += 1; let b = self.block(d, ind); self.loops -= 1; format!("{}{}times({}{}) {}\n", pad, diff, c, e, b) }
            9 if depth > 0 => { self.loops += 1; let b = self.block(d, ind); self.loops -= 1; format!("{}{}loop {}\n", pad, diff, b) }
            10 if depth > 0 => format!("{}{}{}\n", pad, diff, self.block(d, ind)),
            11 => format!("{}{}{};\n", pad, diff, goto(self)),
            12 => format!("{}{}{} ({}) {};\n", pad, diff, if self.t.bool() { "if" } else { "unless" }, self.expr(2), if self.loops > 0 && self.t.chance(1, 4) { "break".to_string() } else { goto(self) }),
            13 if self.loops > 0 => format!("{}{}break;\n", pad, diff),
            14 => { if self.t.bool() { format!("{}{}return;\n", pad, diff) } else { format!("{}{}return {};\n", pad, diff, self.expr(2)) } }
            15 => format!("{}:\n", self.ident()),
            16 => { self.feat("time_label"); match self.t.below(3) { 0 => format!("{}:\n", self.t.below(1000)), 1 => format!("-{}:\n", self.t.below(1000)), _ => format!("+{}:\n", self.operand(1)) } }
            17 => format!("{}interrupt[{}]:\n", pad, self.expr(1)),
            18 => { let ty = *self.t.pick(&["int", "float", "string"]); format!("{}const {} {} = {};\n", pad, ty, self.ident(), self.expr(2)) }
            19 if self.cfg.special_calls => { self.feat("special_call"); let args: Vec<String> = (0..self.t.below(3)).map(|_| self.expr(1)).collect(); match self.t.below(3) { 0 => format!("{}{}@{}({});\n", pad, diff, self.ident(), args.join(", ")), 1 => format!("{}{}{}({}) async;\n", pad, diff, self.ident(), args.join(", ")), _ => format!("{}{}@{}({}) async {};\n", pad, diff, self.ident(), args.join(", "), self.operand(1)) } }
            20 if depth > 0 && self.cfg.items => format!("{}{}\n", pad, self.func(d, ind)),
            _ => format!("{}{}{};\n", pad, diff, self.call(1)),
        }
    }

    fn func(&mut self, depth: usize, ind: usize) -> String {
        self.feat("function");
        let q = *self.t.pick(&["", "", "inline ", "const "]);
        let ty = *self.t.pick(&["void", "int", "float", "string"]);
        let n = self.t.below(4);
        let params: Vec<String> = (0..n).map(|_| { let t = *self.t.pick(&["int", "float", "var"]); if self.t.chance(1, 5) { t.to_string() } else { format!("{} {}", t, self.ident()) } }).collect();
        let head = format!("{}{} {}({})", q, ty, self.ident(), params.join(", "));
        if self.t.chance(1, 4) { format!("{};", head) } else { let saved = self.loops; self.loops = 0; let b = self.block(depth, ind); self.loops = saved; format!("{} {}", head, b) }
    }

    pub fn meta(&mut self, depth: usize) -> String {
        self.feat("meta");
        if depth == 0 { return self.operand(1); }
        match self.t.below(6) {
            0 | 1 => self.operand(1),
            2 => { let n = self.t.below(4); let items: Vec<String> = (0..n).map(|_| self.meta(depth - 1)).collect(); format!("[{}{}]", items.join(", "), if n > 0 && self.t.chance(1, 5) { "," } else { "" }) }
            3 | 4 => self.meta_fields(depth - 1),
            _ => format!("{} {}", self.ident(), self.meta_fields(depth - 1)),
        }
    }
    fn meta_fields(&mut self, depth: usize) -> String {
        let n = self.t.below(4);
        let mut keys: Vec<String> = vec![];
        let mut items = vec![];
        for i in 0..n {
            let mut k = if self.t.chance(1, 6) { format!("{}", self.t.below(50)) } else { self.ident() };
            if keys.contains(&k) { k = format!("k{}", i); }
            keys.push(k.clone());
            items.push(format!("{}: {}", k, self.meta(depth)));
        }
        format!("{{{}}}", items.join(", "))
    }

    pub fn script_file(&mut self) -> String {
        let mut out = String::new();
        let n = 1 + self.t.below(4);
        for _ in 0..n {
            match self.t.below(8) {
                0 | 1 | 2 => { let num = if self.t.chance(1, 3) { format!("{} ", self.t.below(30) as i64 - 2) } else { String::new() }; out.push_str(&format!("script {}{} {}\n\n", num, self.ident(), self.block(self.cfg.max_depth, 0))); }
                3 => out.push_str(&format!("{} {}\n\n", if self.t.bool() { "meta" } else { "entry" }, self.meta_fields(3))),
                4 => { let ty = *self.t.pick(&["int", "float", "string"]); let n = 1 + self.t.below(2); let vars: Vec<String> = (0..n).map(|_| format!("{} = {}", self.ident(), self.expr(2))).collect(); out.push_str(&format!("const {} {};\n", ty, vars.join(", "))); }
                5 | 6 => { let f = self.func(self.cfg.max_depth, 0); out.push_str(&f); out.push_str("\n\n"); }
                _ => { out.push_str(&format!("script {} {}\n\n", self.ident(), self.block(self.cfg.max_depth, 0))); }
            }
        }
        out
    }
}

fn has_toplevel(e: &str, ch: char) -> bool {
    let mut depth = 0i32; let mut in_str = false; let mut prev = ' ';
    for c in e.chars() {
        if in_str { if c == '"' && prev != '\\' { in_str = false; } prev = if prev == '\\' && c == '\\' { ' ' } else { c }; continue; }
        match c { '"' => in_str = true, '(' | '[' | '{' => depth += 1, ')' | ']' | '}' => depth -= 1, c if c == ch && depth == 0 => return true, _ => {} }
        prev = c;
    }
    false
}
fn needs_parens_as_operand(e: &str) -> bool { has_toplevel(e, ':') || has_toplevel(e, '?') }
fn is_term(e: &str) -> bool {
    // a single token / call / parenthesised group: no top-level spaces and no leading operator
    !has_toplevel(e, ' ') && !e.starts_with('-') && !e.starts_with('!') && !e.starts_with('~') && !e.starts_with('+') && !e.ends_with("++") && !e.ends_with("--") && !has_toplevel(e, ':')
}
