//! LangSpec: a generated register-language configuration (mapfile + TestLanguage hooks), as data.
//! The harness writes the mapfile itself, so M-machine/M-codec interpret instructions from this
//! spec, never from truth's tables.
use std::collections::{BTreeMap, BTreeSet};
use serde_json::{json, Value};
use crate::engine::Tape;
use super::prog::Ty;

#[derive(Clone, Debug, PartialEq)]
pub enum Intr {
    Jmp,
    Interrupt,
    AssignOp(String, Ty),
    BinOp(String, Ty),
    UnOp(String, Ty),
    CountJmp(String),
    CondJmp(String, Ty),
    Cmp(Ty),
    CmpJmp(String),
}

impl Intr {
    pub fn mapfile_str(&self) -> String {
        let t = |ty: &Ty| ty.kw();
        match self {
            Intr::Jmp => "Jmp()".into(),
            Intr::Interrupt => "Interrupt()".into(),
            Intr::AssignOp(op, ty) => format!("AssignOp(op=\"{}\"; type=\"{}\")", op, t(ty)),
            Intr::BinOp(op, ty) => format!("BinOp(op=\"{}\"; type=\"{}\")", op, t(ty)),
            Intr::UnOp(op, ty) => format!("UnOp(op=\"{}\"; type=\"{}\")", op, t(ty)),
            Intr::CountJmp(op) => if op == "!=" { "CountJmp()".into() } else { format!("CountJmp(op=\"{}\")", op) },
            Intr::CondJmp(op, ty) => format!("CondJmp(op=\"{}\"; type=\"{}\")", op, t(ty)),
            Intr::Cmp(ty) => format!("DedicatedCmp(type=\"{}\")", t(ty)),
            Intr::CmpJmp(op) => format!("DedicatedCmpJmp(op=\"{}\")", op),
        }
    }
    pub fn to_json(&self) -> Value {
        match self {
            Intr::Jmp => json!({"k": "Jmp"}),
            Intr::Interrupt => json!({"k": "Interrupt"}),
            Intr::AssignOp(op, ty) => json!({"k": "AssignOp", "op": op, "ty": ty.kw()}),
            Intr::BinOp(op, ty) => json!({"k": "BinOp", "op": op, "ty": ty.kw()}),
            Intr::UnOp(op, ty) => json!({"k": "UnOp", "op": op, "ty": ty.kw()}),
            Intr::CountJmp(op) => json!({"k": "CountJmp", "op": op}),
            Intr::CondJmp(op, ty) => json!({"k": "CondJmp", "op": op, "ty": ty.kw()}),
            Intr::Cmp(ty) => json!({"k": "Cmp", "ty": ty.kw()}),
            Intr::CmpJmp(op) => json!({"k": "CmpJmp", "op": op}),
        }
    }
    pub fn from_json(v: &Value) -> Intr {
        let op = || v["op"].as_str().unwrap_or("").to_string();
        let ty = || Ty::from_kw(v["ty"].as_str().unwrap_or("int"));
        match v["k"].as_str().unwrap_or("") {
            "Jmp" => Intr::Jmp,
            "Interrupt" => Intr::Interrupt,
            "AssignOp" => Intr::AssignOp(op(), ty()),
            "BinOp" => Intr::BinOp(op(), ty()),
            "UnOp" => Intr::UnOp(op(), ty()),
            "CountJmp" => Intr::CountJmp(op()),
            "CondJmp" => Intr::CondJmp(op(), ty()),
            "Cmp" => Intr::Cmp(ty()),
            "CmpJmp" => Intr::CmpJmp(op()),
            k => panic!("bad intrinsic kind {}", k),
        }
    }
}

#[derive(Clone, Debug, PartialEq)]
pub enum RegClass {
    /// general-purpose: may be read and written freely
    Gp,
    /// reserved for generated loop counters
    LoopVar,
    /// never written by generated code; initial value small and non-negative (usable as `times` count)
    SmallRo,
}

#[derive(Clone, Debug, PartialEq)]
pub struct RegSpec { pub id: i32, pub ty: Option<Ty>, pub alias: Option<String>, pub scratch: bool, pub class: RegClass }

#[derive(Clone, Debug, PartialEq)]
pub struct LangSpec {
    pub regs: Vec<RegSpec>,
    pub sigs: BTreeMap<u16, String>,
    pub intrinsics: BTreeMap<u16, Intr>,
    pub ins_names: BTreeMap<u16, String>,
    pub anti_scratch: Option<u16>,
    /// extra `!difficulty_flags` lines (index, "X+"/"X-")
    pub diff_flags: Vec<(u32, String)>,
}

pub const OP_JMP: u16 = 1;
pub const OP_COUNTJMP: u16 = 2;
pub const OP_INTERRUPT: u16 = 3;
pub const OP_ANTI: u16 = 99;
pub const OP_SENTINEL: u16 = 100;
pub const OP_CALL_BASE: u16 = 200;

pub const ASSIGN_OPS: &[&str] = &["=", "+=", "-=", "*=", "/=", "%=", "|=", "^=", "&=", "<<=", ">>=", ">>>="];
pub fn assign_binop(op: &str) -> &str { &op[..op.len() - 1] }
pub const CMP_OPS: &[&str] = &["==", "!=", "<", "<=", ">", ">="];
pub fn negate_cmp(op: &str) -> &'static str { match op { "==" => "!=", "!=" => "==", "<" => ">=", "<=" => ">", ">" => "<=", ">=" => "<", _ => panic!() } }

impl LangSpec {
    pub fn to_json(&self) -> Value {
        json!({
            "regs": self.regs.iter().map(|r| json!({"id": r.id, "ty": r.ty.map(|t| t.kw()), "alias": r.alias, "scratch": r.scratch,
                "class": match r.class { RegClass::Gp => "gp", RegClass::LoopVar => "loop", RegClass::SmallRo => "ro" }})).collect::<Vec<_>>(),
            "sigs": self.sigs.iter().map(|(k, v)| (k.to_string(), json!(v))).collect::<serde_json::Map<_, _>>(),
            "intrinsics": self.intrinsics.iter().map(|(k, v)| (k.to_string(), v.to_json())).collect::<serde_json::Map<_, _>>(),
            "ins_names": self.ins_names.iter().map(|(k, v)| (k.to_string(), json!(v))).collect::<serde_json::Map<_, _>>(),
            "anti_scratch": self.anti_scratch,
            "diff_flags": self.diff_flags.iter().map(|(i, s)| json!([i, s])).collect::<Vec<_>>(),
        })
    }
    pub fn from_json(v: &Value) -> LangSpec {
        let mut s = LangSpec { regs: vec![], sigs: BTreeMap::new(), intrinsics: BTreeMap::new(), ins_names: BTreeMap::new(), anti_scratch: None, diff_flags: vec![] };
        for r in v["regs"].as_array().unwrap() {
            s.regs.push(RegSpec {
                id: r["id"].as_i64().unwrap() as i32,
                ty: r["ty"].as_str().map(Ty::from_kw),
                alias: r["alias"].as_str().map(|x| x.to_string()),
                scratch: r["scratch"].as_bool().unwrap_or(false),
                class: match r["class"].as_str().unwrap_or("gp") { "loop" => RegClass::LoopVar, "ro" => RegClass::SmallRo, _ => RegClass::Gp },
            });
        }
        for (k, x) in v["sigs"].as_object().unwrap() { s.sigs.insert(k.parse().unwrap(), x.as_str().unwrap().to_string()); }
        for (k, x) in v["intrinsics"].as_object().unwrap() { s.intrinsics.insert(k.parse().unwrap(), Intr::from_json(x)); }
        if let Some(o) = v["ins_names"].as_object() { for (k, x) in o { s.ins_names.insert(k.parse().unwrap(), x.as_str().unwrap().to_string()); } }
        s.anti_scratch = v["anti_scratch"].as_u64().map(|x| x as u16);
        if let Some(a) = v["diff_flags"].as_array() { for e in a { s.diff_flags.push((e[0].as_u64().unwrap() as u32, e[1].as_str().unwrap().to_string())); } }
        s
    }

    pub fn mapfile_text(&self) -> String {
        let mut l = vec!["!anmmap".to_string(), "!gvar_types".to_string()];
        for r in &self.regs { if let Some(t) = r.ty { l.push(format!("{} {}", r.id, t.sigil())); } }
        l.push("!gvar_names".into());
        for r in &self.regs { if let Some(a) = &r.alias { l.push(format!("{} {}", r.id, a)); } }
        l.push("!ins_names".into());
        for (k, v) in &self.ins_names { l.push(format!("{} {}", k, v)); }
        l.push("!ins_signatures".into());
        for (k, v) in &self.sigs { l.push(format!("{} {}", k, v)); }
        l.push("!ins_intrinsics".into());
        for (k, v) in &self.intrinsics { l.push(format!("{} {}", k, v.mapfile_str())); }
        if !self.diff_flags.is_empty() {
            l.push("!difficulty_flags".into());
            for (i, s) in &self.diff_flags { l.push(format!("{} {}", i, s)); }
        }
        l.join("\n") + "\n"
    }

    pub fn hooks(&self) -> truth::llir::TestLanguage {
        let mut h = truth::llir::TestLanguage::default();
        h.language = truth::LanguageKey::Anm;
        h.general_use_int_regs = self.regs.iter().filter(|r| r.scratch && r.ty == Some(Ty::Int)).map(|r| truth::RegId(r.id)).collect();
        h.general_use_float_regs = self.regs.iter().filter(|r| r.scratch && r.ty == Some(Ty::Float)).map(|r| truth::RegId(r.id)).collect();
        h.anti_scratch_opcode = self.anti_scratch;
        h
    }

    pub fn scratch(&self, ty: Ty) -> Vec<i32> { self.regs.iter().filter(|r| r.scratch && r.ty == Some(ty)).map(|r| r.id).collect() }
    pub fn reg(&self, id: i32) -> Option<&RegSpec> { self.regs.iter().find(|r| r.id == id) }
    pub fn intrinsic_opcode(&self, i: &Intr) -> Option<u16> { self.intrinsics.iter().find(|(_, v)| *v == i).map(|(k, _)| *k) }
    pub fn has(&self, i: &Intr) -> bool { self.intrinsic_opcode(i).is_some() }

    pub fn avail(&self) -> Avail {
        let mut a = Avail::default();
        for ty in [Ty::Int, Ty::Float] {
            for op in crate::model::ops::BINOPS {
                if self.has(&Intr::BinOp(op.to_string(), ty)) { a.bin.insert((op.to_string(), ty)); }
            }
            for op in ASSIGN_OPS {
                let native = self.has(&Intr::AssignOp(op.to_string(), ty));
                let via = *op != "=" && self.has(&Intr::BinOp(assign_binop(op).to_string(), ty));
                if native || via { a.assign.insert((op.to_string(), ty)); }
            }
            for op in ["-", "!", "~", "sin", "cos", "tan", "asin", "acos", "atan", "sqrt"] {
                let mut ok = self.has(&Intr::UnOp(op.to_string(), ty));
                if op == "-" && self.has(&Intr::BinOp("*".into(), ty)) { ok = true; }
                if op == "~" && ty == Ty::Int && self.has(&Intr::BinOp("-".into(), Ty::Int)) { ok = true; }
                if ok { a.un.insert((op.to_string(), ty)); }
            }
            for op in CMP_OPS {
                let one = self.has(&Intr::CondJmp(op.to_string(), ty));
                let two = self.has(&Intr::Cmp(ty)) && self.has(&Intr::CmpJmp(op.to_string()));
                if one || two { a.cond.insert((op.to_string(), ty)); }
            }
        }
        // a comparison is usable in a condition only if its negation is too (blocks and `unless` negate)
        let c0 = a.cond.clone();
        a.cond.retain(|(op, ty)| c0.contains(&(negate_cmp(op).to_string(), *ty)));
        a.count_jmp = if self.has(&Intr::CountJmp(">".into())) { Some(">".into()) } else if self.has(&Intr::CountJmp("!=".into())) { Some("!=".into()) } else { None };
        a.has_ne = self.has(&Intr::CountJmp("!=".into()));
        a.has_gt = self.has(&Intr::CountJmp(">".into()));
        a.jmp = self.has(&Intr::Jmp);
        a
    }
}

/// What the generator may use without running into "not supported by format".
#[derive(Clone, Debug, Default)]
pub struct Avail {
    pub bin: BTreeSet<(String, Ty)>,
    pub assign: BTreeSet<(String, Ty)>,
    pub un: BTreeSet<(String, Ty)>,
    pub cond: BTreeSet<(String, Ty)>,
    pub count_jmp: Option<String>,
    pub has_ne: bool,
    pub has_gt: bool,
    pub jmp: bool,
}

fn with_padding(tape: &mut Tape, sig: &str, mode: u8) -> String {
    if mode == 0 || !tape.chance(1, 4) { return sig.to_string(); }
    if mode == 1 { return format!("{}_", sig); }
    // insert one `_` at a position that does not split an "ot"/"to" pair
    let chars: Vec<char> = sig.chars().collect();
    let mut positions = vec![];
    for p in 0..=chars.len() {
        let splits_jump = p > 0 && p < chars.len() && matches!((chars[p - 1], chars[p]), ('o', 't') | ('t', 'o'));
        if !splits_jump { positions.push(p); }
    }
    let p = *tape.pick(&positions);
    let mut out: String = chars[..p].iter().collect();
    out.push('_');
    out.extend(chars[p..].iter());
    out
}

#[derive(Clone, Debug)]
pub struct LangKnobs { /// 0 = none, 1 = trailing only, 2 = anywhere
    pub pad_intrinsics: u8, pub rich: bool, pub anti_scratch: bool }

/// Generate a register-language configuration.
pub fn gen_lang(tape: &mut Tape, knobs: &LangKnobs) -> LangSpec {
    let mut s = LangSpec { regs: vec![], sigs: BTreeMap::new(), intrinsics: BTreeMap::new(), ins_names: BTreeMap::new(), anti_scratch: None, diff_flags: vec![] };
    // registers
    let n_scratch_i = tape.range(0, 4) as usize;
    let n_scratch_f = tape.range(0, 4) as usize;
    let use_alias = tape.bool();
    for i in 0..4 {
        s.regs.push(RegSpec { id: 1000 + i, ty: Some(Ty::Int), alias: use_alias.then(|| format!("I{}", i)), scratch: (i as usize) < n_scratch_i, class: RegClass::Gp });
    }
    for i in 0..4 {
        s.regs.push(RegSpec { id: 1004 + i, ty: Some(Ty::Float), alias: use_alias.then(|| format!("F{}", i)), scratch: (i as usize) < n_scratch_f, class: RegClass::Gp });
    }
    s.regs.push(RegSpec { id: 1010, ty: Some(Ty::Int), alias: Some("GI0".into()), scratch: false, class: RegClass::Gp });
    s.regs.push(RegSpec { id: 1011, ty: Some(Ty::Int), alias: None, scratch: false, class: RegClass::Gp });
    s.regs.push(RegSpec { id: 1012, ty: Some(Ty::Float), alias: Some("GF0".into()), scratch: false, class: RegClass::Gp });
    s.regs.push(RegSpec { id: 1013, ty: Some(Ty::Float), alias: None, scratch: false, class: RegClass::Gp });
    for i in 0..4 { s.regs.push(RegSpec { id: 1020 + i, ty: Some(Ty::Int), alias: (i % 2 == 0).then(|| format!("LV{}", i)), scratch: false, class: RegClass::LoopVar }); }
    s.regs.push(RegSpec { id: 1030, ty: Some(Ty::Int), alias: Some("N0".into()), scratch: false, class: RegClass::SmallRo });
    s.regs.push(RegSpec { id: 1031, ty: Some(Ty::Int), alias: None, scratch: false, class: RegClass::SmallRo });
    // an untyped register (no !gvar_types entry): usable only with a sigil
    s.regs.push(RegSpec { id: 1040, ty: None, alias: Some("UNT".into()), scratch: false, class: RegClass::Gp });

    let pad = knobs.pad_intrinsics;
    // jumps
    let jsig = if tape.bool() { "to" } else { "ot" };
    s.sigs.insert(OP_JMP, with_padding(tape, jsig, pad));
    s.intrinsics.insert(OP_JMP, Intr::Jmp);
    let cj_sig = *tape.pick(&["Sot", "otS", "Sto", "toS"]);
    s.sigs.insert(OP_COUNTJMP, with_padding(tape, cj_sig, pad));
    s.intrinsics.insert(OP_COUNTJMP, Intr::CountJmp(if tape.bool() { ">".into() } else { "!=".into() }));
    s.sigs.insert(OP_INTERRUPT, "S".into());
    s.intrinsics.insert(OP_INTERRUPT, Intr::Interrupt);

    let mut next: u16 = 10;
    // assign ops
    for op in ["=", "+=", "-=", "*=", "/=", "%="] {
        for ty in [Ty::Int, Ty::Float] {
            let present = op == "=" || !tape.chance(1, 4);
            if present {
                s.sigs.insert(next, with_padding(tape, if ty == Ty::Int { "SS" } else { "ff" }, pad));
                s.intrinsics.insert(next, Intr::AssignOp(op.into(), ty));
            }
            next += 1;
        }
    }
    if knobs.rich {
        for op in ["|=", "^=", "&=", "<<=", ">>=", ">>>="] {
            if tape.chance(1, 4) { s.sigs.insert(next, "SS".into()); s.intrinsics.insert(next, Intr::AssignOp(op.into(), Ty::Int)); }
            next += 1;
        }
    }
    // binops
    next = 30;
    for op in ["+", "-", "*", "/", "%"] {
        for ty in [Ty::Int, Ty::Float] {
            if !tape.chance(1, 8) {
                s.sigs.insert(next, with_padding(tape, if ty == Ty::Int { "SSS" } else { "fff" }, pad));
                s.intrinsics.insert(next, Intr::BinOp(op.into(), ty));
            }
            next += 1;
        }
    }
    for op in ["|", "^", "&", "<<", ">>", ">>>"] {
        if knobs.rich && tape.bool() { s.sigs.insert(next, "SSS".into()); s.intrinsics.insert(next, Intr::BinOp(op.into(), Ty::Int)); }
        next += 1;
    }
    // comparison binops in value position
    for op in CMP_OPS {
        for ty in [Ty::Int, Ty::Float] {
            if knobs.rich && tape.bool() {
                s.sigs.insert(next, if ty == Ty::Int { "SSS".into() } else { "Sff".to_string() });
                s.intrinsics.insert(next, Intr::BinOp(op.to_string(), ty));
            }
            next += 1;
        }
    }
    // conditional jumps: single-instruction or two-part, per type
    next = 70;
    for ty in [Ty::Int, Ty::Float] {
        let two_part = tape.chance(1, 3);
        if two_part {
            s.sigs.insert(next, with_padding(tape, if ty == Ty::Int { "SS" } else { "ff" }, pad));
            s.intrinsics.insert(next, Intr::Cmp(ty));
        }
        next += 1;
        for op in CMP_OPS {
            if !two_part {
                let base = if ty == Ty::Int { "SS" } else { "ff" };
                let sig = if tape.bool() { format!("{}ot", base) } else { format!("{}to", base) };
                s.sigs.insert(next, with_padding(tape, &sig, pad));
                s.intrinsics.insert(next, Intr::CondJmp(op.to_string(), ty));
            }
            next += 1;
        }
    }
    // CmpJmp shared between types
    let need_cmpjmp = s.intrinsics.values().any(|i| matches!(i, Intr::Cmp(_)));
    for op in CMP_OPS {
        if need_cmpjmp { s.sigs.insert(next, if tape.bool() { "ot".into() } else { "to".to_string() }); s.intrinsics.insert(next, Intr::CmpJmp(op.to_string())); }
        next += 1;
    }
    // unary ops
    next = 90;
    for (op, ty, num, den) in [("-", Ty::Int, 1, 2), ("-", Ty::Float, 1, 2), ("~", Ty::Int, 1, 4), ("!", Ty::Int, 1, 4),
                               ("sin", Ty::Float, 3, 4), ("cos", Ty::Float, 3, 4), ("sqrt", Ty::Float, 1, 4)] {
        if tape.chance(num, den) && (knobs.rich || op == "sin" || op == "cos" || op == "-") {
            s.sigs.insert(next, with_padding(tape, if ty == Ty::Int { "SS" } else { "ff" }, pad));
            s.intrinsics.insert(next, Intr::UnOp(op.into(), ty));
        }
        next += 1;
    }
    if knobs.anti_scratch { s.sigs.insert(OP_ANTI, "".into()); s.anti_scratch = Some(OP_ANTI); s.ins_names.insert(OP_ANTI, "antiscratch".into()); }
    s.sigs.insert(OP_SENTINEL, "".into());
    s.ins_names.insert(OP_SENTINEL, "sentinel".into());
    // plain call instructions
    let ncalls = 2 + tape.below(5);
    for i in 0..ncalls {
        let nargs = tape.below(5);
        let sig: String = (0..nargs).map(|_| if tape.bool() { 'f' } else { 'S' }).collect();
        s.sigs.insert(OP_CALL_BASE + i as u16, sig);
        if tape.bool() { s.ins_names.insert(OP_CALL_BASE + i as u16, format!("call{}", i)); }
    }
    s
}

/// The fixed configuration of tests/expr_compile.rs, for reference and for simple cases.
pub fn default_lang() -> LangSpec {
    let data: Vec<u32> = vec![];
    let mut tape = Tape::new(&data);
    let mut s = gen_lang(&mut tape, &LangKnobs { pad_intrinsics: 0, rich: false, anti_scratch: false });
    for r in s.regs.iter_mut() { if r.class == RegClass::Gp && r.id < 1008 { r.scratch = true; } }
    for (i, sig) in ["S", "f", "SS", "Sf", "ff", "SSSS"].iter().enumerate() { s.sigs.insert(OP_CALL_BASE + i as u16, sig.to_string()); }
    s
}
