//! Token- and byte-level mutations of source / mapfile text (C04).
use serde_json::{json, Value};
use crate::engine::Tape;

/// Byte ranges of the tokens of `s` (identifiers, numbers, strings, comments, punctuation runs).
pub fn tokenize(s: &[u8]) -> Vec<(usize, usize)> {
    let mut out = vec![];
    let mut i = 0;
    let n = s.len();
    while i < n {
        let c = s[i];
        if c.is_ascii_whitespace() { i += 1; continue; }
        let start = i;
        if c == b'"' {
            i += 1;
            while i < n && s[i] != b'"' { if s[i] == b'\\' { i += 1; } i += 1; }
            i = (i + 1).min(n);
        } else if c == b'/' && i + 1 < n && s[i + 1] == b'/' {
            while i < n && s[i] != b'\n' { i += 1; }
        } else if c == b'/' && i + 1 < n && s[i + 1] == b'*' {
            i += 2;
            while i + 1 < n && !(s[i] == b'*' && s[i + 1] == b'/') { i += 1; }
            i = (i + 2).min(n);
        } else if c.is_ascii_alphanumeric() || c == b'_' || c >= 0x80 {
            while i < n && (s[i].is_ascii_alphanumeric() || s[i] == b'_' || s[i] == b'.' || s[i] >= 0x80) { i += 1; }
        } else {
            // operators: greedy over a small set of multi-char operators
            const OPS: &[&[u8]] = &[b">>>=", b"<<=", b">>=", b">>>", b"...", b"==", b"!=", b"<=", b">=", b"&&", b"||", b"<<", b">>", b"+=", b"-=", b"*=", b"/=", b"%=", b"|=", b"^=", b"&=", b"++", b"--", b"::", b".."];
            let mut len = 1;
            for op in OPS { if s[i..].starts_with(op) { len = op.len(); break; } }
            i += len;
        }
        out.push((start, i.min(n)));
    }
    out
}

pub const VOCAB: &[&str] = &[
    "if", "else", "unless", "do", "while", "times", "loop", "break", "return", "goto", "int", "float", "var", "const", "inline", "void", "string", "script", "entry", "meta", "sub", "timeline",
    "offsetof", "timeof", "sin", "cos", "sqrt", "_S", "_f", "$", "%", "::", ":", ";", ",", ".", "(", ")", "{", "}", "[", "]", "+", "-", "*", "/", "^", "|", "&", "<<", ">>", ">>>", "==", "!=", "<", "<=", ">", ">=",
    "&&", "||", "!", "~", "=", "+=", "-=", "*=", "/=", "%=", "|=", "^=", "&=", "<<=", ">>=", ">>>=", "++", "--", "?", "@mask=", "@blob=", "@arg0=", "@pop=", "@nargs=", "@", "async", "#pragma", "mapfile", "image_source",
    "+10:", "-5:", "10:", "{\"EN\"}:", "{\"*-0\"}:", "INF", "NAN", "PI", "true", "false", "REG[10000]", "$REG[1]", "%REG[2]", "ins_23", "ins_0", "ins_65535", "ins_65536", "ins_-1", "REG[-10001]", "REG[99999999999]",
    "0", "1", "-1", "2147483647", "2147483648", "4294967295", "4294967296", "99999999999999999999", "-2147483648", "0x", "0xffffffff", "0x100000000", "0b", "0b2", "1e999", "1e-999", "1.0e", ".5", "5.", "1.0f", "1f", "1.5.5", "0.0", "-0.0", "rad(1.0)", "rad(1.5.5)", "rad(1.f)", "rad(-1.0)", "rad(+1.5f)", "rad(1..5)", "rad(1f)", "rad()", "rad(1.5.f)", "1.5.f", "1.f",
    "\"\"", "\"a\"", "\"\\\"", "\"unterminated", "\"\\x\"", "\"\\0\"", "\"日本\"", "\"😀\"", "'a'", "`", "\\", "#", "//", "/*", "*/", "\u{feff}", "\r\n", "\0", "\u{7f}", "é", "ｶ",
    "script0", "sprite0", "main", "Sub0", "timeline0", "default", "table", "path", "has_data", "sprites", "x", "i", "I0", "F0", "anim", "objects", "instances",
];

pub const NUMS: &[&str] = &["0", "1", "-1", "2", "255", "256", "65535", "65536", "2147483647", "2147483648", "4294967295", "4294967296", "99999999999999999999", "0x7fffffff", "0xffffffff", "0x100000000", "0b1", "0.0", "1.0", "-0.5", "1e10", "1e39", "1e-50", "3.4028235e38", "0.5f", "2f", "rad(1.5)", "true", "false", "INF", "NAN", "PI"];
pub const STRS: &[&str] = &["\"\"", "\"a\"", "\"a.png\"", "\"script0\"", "\"日本語\"", "\"ｶﾀｶﾅ\"", "\"😀\"", "\"\\0\"", "\"\\n\"", "\"\\\\\"", "\"aaaaaaaaaaaaaaaaaaaaaaaaaaaaaaaaaaaaaaaaaaaaaaaaaaaaaaaaaaaaaaaaaaaaaaaaaaaaaaaaaaaaaaaaaaaaaaaaaaaaaaaaaaaaaaaaaaaaaaaaaaaaaaaaaaaaaaaaaaaaaaaaaaaaaaaaaaaaaaaaaaaaaaaaaaaaaaaaaaaaaaaaaaaaaaaaaaaaaaaaaaaaaaaaaaaaaaaaaaaaaaaaaaaaaaaaaaaaaaaaaaaaaaaaaaaaaaaaaaaaaa\"", "\"dummy\"", "\"EN\"", "\"*\""];
pub const IDENTS: &[&str] = &["x", "i", "foo", "script0", "script1", "sprite0", "Sub0", "Sub1", "timeline0", "main", "object0", "ins_0", "ins_1", "ins_23", "ins_65535", "ins_99999", "REG[10000]", "REG[-10001]", "REG[1]", "$REG[10000]", "%REG[10004]", "$x", "%x", "I0", "F0", "int", "float", "var", "void", "const", "inline", "sin", "_S", "_f", "offsetof", "timeof", "entry", "meta", "script", "default", "path", "has_data", "rect", "strip"];
pub const OPS: &[&str] = &["+", "-", "*", "/", "%", "==", "!=", "<", "<=", ">", ">=", "|", "^", "&", "||", "&&", "<<", ">>", ">>>", "=", "+=", "-=", "*=", "/=", "%=", "|=", "^=", "&=", "<<=", ">>=", ">>>=", "?", ":", ",", ";", "(", ")", "{", "}", "[", "]", "!", "~", "++", "--", "@", "$", "."];

/// Whole statements / items inserted at a statement boundary (after a `;`, `{` or `}`): constructs that are valid somewhere but
/// usually not where they land, so that resolution, type checking and lowering see them in every kind of script.
pub const STMTS: &[&str] = &[
    "Sub0();", "Sub1(1, 2.0, 3.0);", "Sub0(1);", "Sub0(!$REG[-10001]);", "Sub1(!$REG[-10001]);", "Sub2(-$REG[-10002]);", "Sub0(!$REG[-10001], 1.0);", "Sub1($REG[-10001] * 2, 1.0);", "Sub0(%REG[-10005] + 1.0);", "Sub1(%REG[-10005] * 2.0);", "Sub0(1, %REG[-10005] + 1.0);", "Sub1(1, -%REG[-10006]);", "Sub0($REG[-10001] + 1);", "Sub0($REG[10000] * 2, %REG[10004] + 1.0);", "Sub1(x + 1);", "Sub0(1.5 * 2.0);", "Sub0(_S(%REG[-10005]));", "int r = Sub0();", "@Sub0();", "Sub0() async;", "timeline0();", "script0();", "main();",
    "void inner() { }\ninner();", "void inner(int a) { ins_1(a); }\ninner(3);", "inline void inl() { }\ninl();", "const int cf() { return 1; }\nint q = cf();", "int fwd();", "void inner2() { void inner3() { } inner3(); }",
    "return;", "return 1;", "break;", "goto nowhere;", "goto end @ 5;", "end:", "if (1) break;", "times(3) { break; }", "loop { }", "do { } while (0);",
    "int x; int x;", "int y = y;", "float z = 1;", "const int K = 1 / 0;", "const int K2 = K2;", "const int Z0 = 0;\nconst int K3 = 7 / Z0;", "const int K4 = 7 % (3 - 3);", "const int K5 = 1 / -0;", "const float KF = 1.0 / 0.0;", "const int K6 = (1 << 31) / -1;", "const int K7 = -2147483648 % -1;", "var v;", "x = 1;", "$F0 = 1;", "REG[100] = 1;", "$REG[-10001] = %REG[-10005];", "$REG[10000] = $REG[10000] + $REG[10001] * ($REG[10002] - 1);",
    "interrupt[1]:", "interrupt[-1]:", "+10:", "-5:", "2147483647:", "+2147483647:", "{\"E\"}: Sub0();", "{\"EN\"}: ins_1();", "{\"*-E\"}: { ins_1(); }", "ins_1(1:2:3:4);", "ins_1((1:2):3);",
    "ins_65535();", "ins_65536();", "ins_0(@blob=\"00\");", "ins_1(@mask=1, @blob=\"\");", "ins_1(@arg0=5);", "ins_1(@pop=1);", "ins_1(@nargs=2);", "ins_1(@blob=\"00000000\", 1);", "ins_1(offsetof(end), timeof(end));",
    "ins_1(sprite0);", "ins_1(script0);", "ins_1(\"a\");", "ins_1(1.5);", "ins_1(x ? 1 : 2);", "ins_1(-x);", "ins_1(sin(1.0));", "ins_1(_S(1.5));", "ins_1(_f(1));", "ins_1($x);", "ins_1(%x);",
    "script extra { }", "script 5 extra5 { }", "entry { }", "meta { }", "#pragma mapfile \"nonexistent\"", "#pragma image_source \"nonexistent\"",
];

pub fn gen_text_mutation(t: &mut Tape) -> Value {
    let at = t.below(65536);
    if t.chance(1, 6) { return json!({"op": "stmt_ins", "at": at, "text": *t.pick(STMTS)}); }
    if t.chance(1, 2) {
        // class-preserving replacement: the text usually still parses, so that later passes are reached
        return json!({"op": "tok_rep_same", "at": at, "num": *t.pick(NUMS), "str": *t.pick(STRS), "ident": *t.pick(IDENTS), "punct": *t.pick(OPS)});
    }
    match t.below(14) {
        0 => json!({"op": "tok_del", "at": at}),
        1 => json!({"op": "tok_dup", "at": at}),
        2 => json!({"op": "tok_swap", "at": at}),
        3 | 4 => json!({"op": "tok_ins", "at": at, "text": *t.pick(VOCAB)}),
        5 | 6 | 7 => json!({"op": "tok_rep", "at": at, "text": *t.pick(VOCAB)}),
        8 => json!({"op": "tok_move", "at": at, "to": t.below(65536)}),
        9 => json!({"op": "nest", "at": at, "kind": *t.pick(&["paren", "neg", "not", "bracket", "brace", "cast"]), "depth": *t.pick(&[2usize, 8, 50, 200, 256])}),
        10 => json!({"op": "byte_set", "at": at, "v": *t.pick(&[0u32, 0xff, 0x80, 0x22, 0x5c, 0x0a, 0x0d, 0xc3, 0xe3, 0x7b, 0x7d])}),
        11 => json!({"op": "byte_del", "at": at, "n": 1 + t.below(8)}),
        12 => json!({"op": "trunc", "at": at}),
        _ => json!({"op": "tok_del_range", "at": at, "n": 1 + t.below(6)}),
    }
}

pub fn apply_text_mutation(text: &mut Vec<u8>, m: &Value) {
    let toks = tokenize(text);
    let frac = |f: u64, len: usize| -> usize { ((f as u128 * len as u128) >> 16) as usize };
    let at = m["at"].as_u64().unwrap_or(0);
    let op = m["op"].as_str().unwrap_or("");
    let ins = m["text"].as_str().unwrap_or("").as_bytes().to_vec();
    if op == "stmt_ins" {
        // statement boundaries: just after a `;`, `{` or `}` token
        let bounds: Vec<usize> = std::iter::once(0).chain(toks.iter().filter(|(a, b)| b - a == 1 && matches!(text[*a], b';' | b'{' | b'}')).map(|(_, b)| *b)).collect();
        let p = bounds[frac(at, bounds.len())];
        let mut v = vec![b'\n']; v.extend(ins); v.push(b'\n');
        splice(text, p, p, &v);
        return;
    }
    if op.starts_with("tok") || op == "nest" {
        if toks.is_empty() { if op == "tok_ins" { text.extend_from_slice(&ins); } return; }
        let i = frac(at, toks.len());
        let (a, b) = toks[i];
        match op {
            "tok_del" => { text.drain(a..b); }
            "tok_del_range" => { let j = (i + m["n"].as_u64().unwrap_or(1) as usize).min(toks.len()) - 1; text.drain(a..toks[j].1); }
            "tok_dup" => { let tok = text[a..b].to_vec(); let mut v = vec![b' ']; v.extend(tok); splice(text, b, b, &v); }
            "tok_swap" => { if i + 1 < toks.len() { let (c, d) = toks[i + 1]; let t1 = text[a..b].to_vec(); let t2 = text[c..d].to_vec(); let mid = text[b..c].to_vec(); let mut v = t2; v.extend(mid); v.extend(t1); splice(text, a, d, &v); } }
            "tok_ins" => { let mut v = ins; v.push(b' '); splice(text, a, a, &v); }
            "tok_rep" => { splice(text, a, b, &ins); }
            "tok_rep_same" => {
                let c = text[a];
                let key = if c == b'"' { "str" } else if c.is_ascii_digit() { "num" } else if c.is_ascii_alphabetic() || c == b'_' || c >= 0x80 { "ident" } else { "punct" };
                let with = m[key].as_str().unwrap_or("").as_bytes().to_vec();
                splice(text, a, b, &with);
            }
            "tok_move" => { let j = frac(m["to"].as_u64().unwrap_or(0), toks.len()); let tok = text[a..b].to_vec(); let dest = toks[j].0; if dest <= a { text.drain(a..b); let mut v = tok; v.push(b' '); splice(text, dest, dest, &v); } else if dest >= b { let mut v = tok; v.push(b' '); splice(text, dest, dest, &v); text.drain(a..b); } }
            "nest" => {
                let depth = (m["depth"].as_u64().unwrap_or(2) as usize).min(256);
                let tok = text[a..b].to_vec();
                let (open, close): (&str, &str) = match m["kind"].as_str().unwrap_or("paren") { "paren" => ("(", ")"), "neg" => ("- ", ""), "not" => ("!", ""), "bracket" => ("[", "]"), "brace" => ("{ ", " }"), _ => ("int(", ")") };
                let mut v = open.repeat(depth).into_bytes(); v.extend(tok); v.extend(close.repeat(depth).into_bytes());
                splice(text, a, b, &v);
            }
            _ => {}
        }
        return;
    }
    let len = text.len();
    let p = frac(at, len + 1).min(len);
    match op {
        "byte_set" => { if p < len { text[p] = m["v"].as_u64().unwrap_or(0) as u8; } }
        "byte_del" => { let n = (m["n"].as_u64().unwrap_or(1) as usize).min(len - p); text.drain(p..p + n); }
        "trunc" => text.truncate(p),
        _ => {}
    }
}

/// Line-oriented mapfile mutations: {"op": "line_value" | "line_key" | "line_dup" | "line_ins", "at", "text"}
pub fn apply_map_mutation(text: &mut Vec<u8>, m: &Value) {
    let op = m["op"].as_str().unwrap_or("");
    if !op.starts_with("line_") { return apply_text_mutation(text, m); }
    let s = String::from_utf8_lossy(text).into_owned();
    let mut lines: Vec<String> = s.lines().map(|l| l.to_string()).collect();
    if lines.is_empty() { return; }
    let i = ((m["at"].as_u64().unwrap_or(0) as u128 * lines.len() as u128) >> 16) as usize;
    let new = m["text"].as_str().unwrap_or("");
    let (key, value) = match lines[i].split_once(' ') { Some((k, v)) => (k.to_string(), v.to_string()), None => (lines[i].clone(), String::new()) };
    match op {
        "line_value" => { if !lines[i].starts_with('!') { lines[i] = format!("{} {}", key, new); } }
        "line_key" => { if !lines[i].starts_with('!') { lines[i] = format!("{} {}", new, value); } }
        "line_dup" => { let l = if new.is_empty() { lines[i].clone() } else { format!("{} {}", new, value) }; lines.insert(i, l); }
        _ => { lines.insert(i, new.to_string()); }
    }
    *text = (lines.join("\n") + "\n").into_bytes();
}

fn splice(text: &mut Vec<u8>, a: usize, b: usize, with: &[u8]) { text.splice(a..b, with.iter().copied()); }

/// Programs with nesting depth up to 256 of one construct.
pub fn deep_program(t: &mut Tape, call: &str) -> (String, usize) {
    let depth = *t.pick(&[8usize, 32, 64, 128, 200, 255, 256]);
    let body = match t.below(9) {
        0 => format!("    {}{}{}\n", "{ ".repeat(depth), call, " }".repeat(depth)),
        1 => format!("    {}{}{}\n", "if (1) { ".repeat(depth), call, " }".repeat(depth)),
        2 => format!("    {}{}{}\n", "loop { ".repeat(depth), call, " }".repeat(depth)),
        3 => format!("    {}{}{}\n", "times(2) { ".repeat(depth), call, " }".repeat(depth)),
        4 => format!("    int x = {}1{};\n", "(".repeat(depth), ")".repeat(depth)),
        5 => format!("    int x = {}1;\n", "- ".repeat(depth)),
        6 => format!("    int x = {}1{};\n", "1 + (".repeat(depth), ")".repeat(depth)),
        7 => format!("    int x = {}1{};\n", "1 ? 2 : (".repeat(depth), ")".repeat(depth)),
        _ => format!("    {}{}{}\n", "if (1) { } else { ".repeat(depth), call, " }".repeat(depth)),
    };
    (body, depth)
}
