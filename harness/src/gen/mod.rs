pub mod prog;
pub mod lang;
pub mod body;
pub mod full;
pub mod files;
pub mod textmut;
