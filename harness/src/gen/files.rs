//! Source generators for the real file formats (ANM, STD, MSG/END, mission MSG, pre-TH10 ECL):
//! valid metadata plus script bodies over the built-in signature tables.
use std::collections::BTreeMap;
use crate::engine::Tape;
use crate::files::{core_table, CoreTable, Fmt};
use crate::model::codec::{gen_arg, Arg, PKind, Param, Sig, StrSize};
use super::prog::{fmt_f32, fmt_str_lit, Expr};
use truth::{Game, LanguageKey};

/// What a language offers, derived from its built-in table by the harness's own reading of the intrinsic names.
#[derive(Clone, Debug, Default)]
pub struct RealLang {
    pub sigs: BTreeMap<u16, Sig>,
    pub intrinsic_ops: Vec<u16>,
    pub int_regs: Vec<i32>,
    pub float_regs: Vec<i32>,
    pub has_jmp: bool,
    pub has_interrupt: bool,
    pub has_count_jmp: Option<String>,
    pub assign_int: bool,
    pub assign_float: bool,
    pub addassign_int: bool,
    pub binop_int: bool,
    pub binop_float: bool,
    pub cond_int: bool,
    pub has_difficulty: bool,
    /// TH10+ (stack) ECL
    pub modern_ecl: bool,
    pub eosd_regs: bool,
}

pub fn real_lang(game: Game, language: LanguageKey) -> RealLang {
    let t: CoreTable = core_table(game, language);
    let mut l = RealLang::default();
    for (op, s) in &t.sigs { if let Ok(sig) = Sig::parse(s) { l.sigs.insert(*op, sig); } }
    for (op, i) in &t.intrinsics {
        l.intrinsic_ops.push(*op);
        if i.starts_with("Jmp") { l.has_jmp = true; }
        if i.starts_with("Interrupt") { l.has_interrupt = true; }
        if i.starts_with("CountJmp") { l.has_count_jmp = Some(if i.contains("\">\"") { ">".into() } else { "!=".into() }); }
        if i.starts_with("AssignOp(op=\"=\"; type=\"int\")") { l.assign_int = true; }
        if i.starts_with("AssignOp(op=\"=\"; type=\"float\")") { l.assign_float = true; }
        if i.starts_with("AssignOp(op=\"+=\"; type=\"int\")") { l.addassign_int = true; }
        if i.starts_with("BinOp(op=\"+\"; type=\"int\")") { l.binop_int = true; if !l.addassign_int { l.addassign_int = true; } }
        if i.starts_with("BinOp(op=\"+\"; type=\"float\")") { l.binop_float = true; }
        if i.starts_with("CondJmp(op=\"==\"; type=\"int\")") || i.starts_with("DedicatedCmp(type=\"int\")") { l.cond_int = true; }
    }
    for (r, ty) in &t.reg_types { if ty == "$" { l.int_regs.push(*r); } else if ty == "%" { l.float_regs.push(*r); } }
    // (timeline instructions carry a difficulty byte from TH08 on)
    l.modern_ecl = language == LanguageKey::Ecl && game >= Game::Th10;
    l.has_difficulty = language == LanguageKey::Ecl || (language == LanguageKey::Timeline && game >= Game::Th08);
    l.eosd_regs = language == LanguageKey::Ecl && game == Game::Th06;
    l
}

#[derive(Clone, Debug)]
pub struct BodyOpts { pub max_stmts: usize, pub registers: bool, pub control_flow: bool, pub strings_only_safe: bool, pub neg_times: bool }

pub struct RealBody<'a, 'b> { pub t: &'a mut Tape<'b>, pub lang: &'a RealLang, pub opts: BodyOpts, next_label: usize, time: i32, pub feats: Vec<&'static str>, budget: usize, max_time: i32, /// (label, time in effect where it is written)
    pub labels: Vec<(String, i32)>,
    /// subs that can be called by name: (name, parameter types 'i' / 'f')
    pub callables: Vec<(String, Vec<char>)> }

fn print_arg(a: &Arg, p: &Param) -> String {
    match a {
        Arg::I(v) => Expr::LitI(*v).print_top(),
        Arg::F(x) => if x.is_finite() { Expr::LitF(*x).print_top() } else { "1.0".into() },
        Arg::Reg(r) => format!("{}REG[{}]", if p.is_float() { "%" } else { "$" }, r),
        Arg::S(s) => fmt_str_lit(s),
    }
}

impl<'a, 'b> RealBody<'a, 'b> {
    pub fn new(t: &'a mut Tape<'b>, lang: &'a RealLang, opts: BodyOpts, max_time: i32) -> Self { let budget = opts.max_stmts; RealBody { t, lang, opts, next_label: 0, time: 0, feats: vec![], budget, max_time, labels: vec![], callables: vec![] } }
    fn feat(&mut self, f: &'static str) { if !self.feats.contains(&f) { self.feats.push(f); } }

    /// a call of a non-intrinsic instruction with arguments valid for its signature
    pub fn raw_call(&mut self) -> Option<String> {
        let ops: Vec<u16> = self.lang.sigs.iter().filter(|(op, sig)| !self.lang.intrinsic_ops.contains(op) && !sig.params.iter().any(|p| matches!(p.kind, PKind::Off | PKind::Time))).map(|(op, _)| *op).collect();
        if ops.is_empty() { return None; }
        let op = *self.t.pick(&ops);
        let sig = self.lang.sigs[&op].clone();
        let mut args = vec![];
        for p in sig.real_params() {
            let use_reg = self.opts.registers && p.reg_ok() && self.t.chance(1, 5);
            let a = if use_reg {
                let pool = if p.is_float() { &self.lang.float_regs } else { &self.lang.int_regs };
                if pool.is_empty() { gen_arg(self.t, p, false, false) } else { self.feat("register_arg"); Arg::Reg(*self.t.pick(pool)) }
            } else {
                let mut a = gen_arg(self.t, p, false, false);
                // EoSD ECL: an immediate in the register id range would read back as a register
                if self.lang.eosd_regs { if let Arg::I(v) = a { if (-10025..=-10001).contains(&v) { a = Arg::I(7); } } if let Arg::F(x) = a { if (-10025.0..=-10001.0).contains(&x) { a = Arg::F(7.0); } } }
                a
            };
            if let Arg::S(s) = &a { self.feat("string_arg"); if s.chars().any(|c| c as u32 > 127) { self.feat("sjis_arg"); } }
            if p.arg0 { self.feat("arg0"); }
            args.push(print_arg(&a, p));
        }
        if sig.params.iter().any(|p| p.is_pad()) { self.feat("padding"); }
        Some(format!("ins_{}({});", op, args.join(", ")))
    }

    fn time_label(&mut self) -> String {
        self.feat("time_label");
        if self.opts.neg_times && self.time == 0 && self.t.chance(1, 6) { self.feat("negative_time"); self.time = -1; return "-1:".into(); }
        if self.time < 0 { self.time = 0; return "0:".into(); }
        let d = *self.t.pick(&[1, 2, 5, 10, 30, 60, 100]);
        if self.time + d > self.max_time { return "+0:".into(); }
        self.time += d;
        if self.t.bool() { format!("+{}:", d) } else { format!("{}:", self.time) }
    }

    fn int_reg(&mut self) -> Option<String> { if !self.opts.registers || self.lang.int_regs.is_empty() { None } else { Some(format!("$REG[{}]", self.t.pick(&self.lang.int_regs))) } }
    fn float_reg(&mut self) -> Option<String> { if !self.opts.registers || self.lang.float_regs.is_empty() { None } else { Some(format!("%REG[{}]", self.t.pick(&self.lang.float_regs))) } }

    fn some_stmts(&mut self, k: usize, depth: usize, ind: usize) -> String { let n = 1 + self.t.below(k); self.stmts(n, depth, ind) }

    pub fn stmts(&mut self, n: usize, depth: usize, ind: usize) -> String {
        let pad = "    ".repeat(ind);
        let mut out = String::new();
        for _ in 0..n {
            if self.budget == 0 { break; }
            self.budget -= 1;
            let k = self.t.below(if self.lang.has_difficulty { 16 } else { 14 });
            let diff = if self.lang.has_difficulty && self.t.chance(1, 8) { self.feat("difficulty_label"); format!("{{\"{}\"}}: ", *self.t.pick(&["0", "1", "01", "23", "3", "*"])) } else { String::new() };
            match k {
                0..=5 => { if let Some(c) = self.raw_call() { out.push_str(&format!("{}{}{}\n", pad, diff, c)); } }
                6 => { let l = self.time_label(); out.push_str(&format!("{}\n", l)); }
                13 if !self.callables.is_empty() => {
                    // a call of a sub by name (compiles to parameter assignments + the call instruction; decompiles back to a call)
                    self.feat("sub_call");
                    let (name, params) = self.t.pick(&self.callables.clone()).clone();
                    let args: Vec<String> = params.iter().map(|c| if *c == 'i' { match (self.t.below(3), self.int_reg()) { (0, Some(r)) => r, _ => format!("{}", self.t.below(100) as i32 - 20) } } else { match (self.t.below(3), self.float_reg()) { (0, Some(r)) => r, _ => fmt_f32(*self.t.pick(&[0.0f32, 1.5, -2.0, 64.25])) } }).collect();
                    out.push_str(&format!("{}{}{}({});\n", pad, diff, name, args.join(", ")));
                }
                14 | 15 if self.lang.has_difficulty => {
                    // a difficulty ladder: the same instruction once per difficulty with different arguments (what the
                    // decompiler folds into a difficulty switch), sometimes with a hole, a repeated mask or a time label inside
                    self.feat("difficulty_ladder");
                    let ops: Vec<u16> = self.lang.sigs.iter().filter(|(op, sig)| !self.lang.intrinsic_ops.contains(op) && !sig.params.iter().any(|p| matches!(p.kind, PKind::Off | PKind::Time) || p.is_string()) && !sig.real_params().is_empty()).map(|(op, _)| *op).collect();
                    if !ops.is_empty() {
                        let op = *self.t.pick(&ops);
                        let sig = self.lang.sigs[&op].clone();
                        let n = 2 + self.t.below(3);
                        let mut d = self.t.below(2);
                        for i in 0..n {
                            if i > 0 && self.t.chance(1, 5) { self.feat("ladder_time_break"); let l = self.time_label(); out.push_str(&format!("{}\n", l)); }
                            let args: Vec<String> = sig.real_params().iter().map(|p| { let a = gen_arg(self.t, p, false, false); let a = match a { Arg::I(v) if self.lang.eosd_regs && (-10025..=-10001).contains(&v) => Arg::I(7), Arg::F(x) if self.lang.eosd_regs && (-10025.0..=-10001.0).contains(&x) => Arg::F(7.0), a => a }; print_arg(&a, p) }).collect();
                            out.push_str(&format!("{}{{\"{}\"}}: ins_{}({});\n", pad, d, op, args.join(", ")));
                            d += if self.t.chance(1, 6) { 2 } else if self.t.chance(1, 8) { 0 } else { 1 };
                            if d > 7 { break; }
                        }
                    }
                }
                12 if self.lang.has_difficulty => {
                    // a difficulty switch over a string argument whose cases encode to different lengths: the per-difficulty copies
                    // of the instruction then have different sizes
                    let ops: Vec<u16> = self.lang.sigs.iter().filter(|(op, sig)| !self.lang.intrinsic_ops.contains(op) && sig.real_params().iter().filter(|p| p.is_string()).count() == 1 && !sig.params.iter().any(|p| matches!(p.kind, PKind::Off | PKind::Time))).map(|(op, _)| *op).collect();
                    if !ops.is_empty() {
                        self.feat("string_diff_switch");
                        let op = *self.t.pick(&ops);
                        let sig = self.lang.sigs[&op].clone();
                        let args: Vec<String> = sig.real_params().iter().map(|p| if p.is_string() {
                            let cases: Vec<String> = (0..(2 + self.t.below(3))).map(|_| fmt_str_lit(*self.t.pick(&["a", "abcd", "abcdefgh", "Boss", "BossLunaticOnly", "", "漢字"]))).collect();
                            cases.join(" : ")
                        } else { let a = gen_arg(self.t, p, false, false); print_arg(&a, p) }).collect();
                        out.push_str(&format!("{}ins_{}({});\n", pad, op, args.join(", ")));
                    }
                }
                7 if self.lang.has_interrupt => { self.feat("interrupt"); out.push_str(&format!("{}interrupt[{}]:\n", pad, self.t.below(8))); }
                8 if self.opts.control_flow && self.lang.has_jmp => {
                    // forward or backward goto
                    self.next_label += 1; let l = format!("lab{}", self.next_label);
                    self.feat("goto");
                    if self.t.bool() { let inner = self.some_stmts(2, depth, ind); self.labels.push((l.clone(), self.time)); out.push_str(&format!("{}goto {};\n{}{}:\n", pad, l, inner, l)); }
                    else { self.labels.push((l.clone(), self.time)); let inner = self.some_stmts(2, depth, ind); out.push_str(&format!("{}:\n{}{}goto {};\n", l, inner, pad, l)); }
                }
                9 if self.opts.control_flow && self.lang.has_jmp && depth > 0 => {
                    self.feat("loop");
                    let inner = self.some_stmts(3, depth - 1, ind + 1);
                    out.push_str(&format!("{}loop {{\n{}{}}}\n", pad, inner, pad));
                }
                10 if self.opts.control_flow && self.lang.has_jmp && self.lang.cond_int && depth > 0 => {
                    if let Some(r) = self.int_reg() {
                        self.feat("if_else");
                        let a = self.some_stmts(2, depth - 1, ind + 1);
                        let op = *self.t.pick(&["==", "!=", "<", ">="]);
                        let v = self.t.below(5);
                        if self.t.bool() { let b = self.some_stmts(2, depth - 1, ind + 1); out.push_str(&format!("{}if ({} {} {}) {{\n{}{}}} else {{\n{}{}}}\n", pad, r, op, v, a, pad, b, pad)); }
                        else { out.push_str(&format!("{}if ({} {} {}) {{\n{}{}}}\n", pad, r, op, v, a, pad)); }
                    }
                }
                11 if self.opts.control_flow && self.lang.has_count_jmp.is_some() && depth > 0 => {
                    if let Some(r) = self.int_reg() {
                        self.feat("count_loop");
                        let inner = self.some_stmts(2, depth - 1, ind + 1);
                        let cond = if self.lang.has_count_jmp.as_deref() == Some(">") { format!("--{} > 0", r) } else { format!("--{}", r) };
                        if self.t.bool() { out.push_str(&format!("{}while ({}) {{\n{}{}}}\n", pad, cond, inner, pad)); }
                        else { out.push_str(&format!("{}do {{\n{}{}}} while ({});\n", pad, inner, pad, cond)); }
                    }
                }
                12 if self.opts.registers => {
                    // assignments
                    if self.lang.assign_int && self.t.bool() { if let (Some(a), Some(b)) = (self.int_reg(), self.int_reg()) {
                        self.feat("assignment");
                        let s = match self.t.below(4) { 0 => format!("{} = {};", a, self.t.below(100)), 1 => format!("{} = {};", a, b), 2 if self.lang.binop_int => format!("{} = {} + {};", a, b, self.t.below(9)), _ if self.lang.addassign_int => format!("{} += {};", a, self.t.below(9)), _ => format!("{} = 1;", a) };
                        out.push_str(&format!("{}{}{}\n", pad, diff, s));
                    } } else if self.lang.assign_float { if let (Some(a), Some(b)) = (self.float_reg(), self.float_reg()) {
                        self.feat("assignment");
                        let s = match self.t.below(3) { 0 => format!("{} = {};", a, fmt_f32(*self.t.pick(&[0.0f32, 1.5, -2.0, 100.25]))), 1 => format!("{} = {};", a, b), _ if self.lang.binop_float => format!("{} = {} + 0.5;", a, b), _ => format!("{} = 2.0;", a) };
                        out.push_str(&format!("{}{}{}\n", pad, diff, s));
                    } }
                }
                _ => { if let Some(c) = self.raw_call() { out.push_str(&format!("{}{}\n", pad, c)); } }
            }
        }
        out
    }
}

// =============================================================================
// Files

#[derive(Clone, Debug)]
pub struct GenFile { pub fmt: Fmt, pub game: String, pub text: String, pub feats: Vec<String>, /// per script, in file order: (label, time)
    pub labels: Vec<Vec<(String, i32)>> }

pub const ANM_GAMES: &[&str] = &["th06", "th07", "th08", "th095", "th10", "th12", "th14", "th18"];
pub const STD_GAMES: &[&str] = &["th06", "th08", "th095", "th12", "th17"];
pub const MSG_GAMES: &[&str] = &["th06", "th08", "th09", "th11", "th12", "th17", "th18"];
pub const END_GAMES: &[&str] = &["th10", "th12"];
pub const MISSION_GAMES: &[&str] = &["th095", "th125"];
pub const ECL_GAMES: &[&str] = &["th06", "th07", "th08", "th09", "th095"];
/// TH10+ ("modern", stack-based) ECL: compiled and read by truth at the level of raw instructions
pub const MODERN_ECL_GAMES: &[&str] = &["th10", "th11", "th12", "th128", "th13", "th14", "th15", "th16", "th17", "th18"];

pub fn games_for(fmt: Fmt) -> &'static [&'static str] {
    match fmt { Fmt::Anm => ANM_GAMES, Fmt::Std => STD_GAMES, Fmt::Msg => MSG_GAMES, Fmt::End => END_GAMES, Fmt::Mission => MISSION_GAMES, Fmt::Ecl => ECL_GAMES }
}

thread_local! { static LANG_CACHE: std::cell::RefCell<BTreeMap<(String, String), RealLang>> = std::cell::RefCell::new(BTreeMap::new()); }
pub fn cached_lang(game: &str, language: LanguageKey) -> RealLang {
    let key = (game.to_string(), format!("{:?}", language));
    LANG_CACHE.with(|c| c.borrow_mut().entry(key).or_insert_with(|| real_lang(crate::files::game_from_str(game), language)).clone())
}

fn f3(t: &mut Tape) -> String { format!("[{}, {}, {}]", fmt_f32(*t.pick(&[0.0f32, 1.0, -64.0, 480.5, 1e6])), fmt_f32(*t.pick(&[0.0f32, 32.0, -200.25])), fmt_f32(*t.pick(&[0.0f32, 110.0, -0.5]))) }
fn f2(t: &mut Tape) -> String { format!("[{}, {}]", fmt_f32(*t.pick(&[64.0f32, 96.0, -112.0])), fmt_f32(*t.pick(&[64.0f32, 0.5, 288.0]))) }

pub const TEXTS: &[&str] = &["dm", " ", "stage01.anm", "bgm/th08_08.mid", "   Scarlet is a nice color", "紅魔郷", "ｽﾃｰｼﾞ", "A", "表示ソ能", "data/stg1bg.anm"];

pub fn gen_file(t: &mut Tape, fmt: Fmt, game: &str, body_stmts: usize) -> GenFile {
    let mut feats: Vec<String> = vec![];
    let mut labels: Vec<Vec<(String, i32)>> = vec![];
    let g = crate::files::game_from_str(game);
    let text = match fmt {
        Fmt::Anm => {
            let lang = cached_lang(game, LanguageKey::Anm);
            let nentries = 1 + t.below(3);
            let mut out = String::new();
            let mut next_script = 0;
            // the id the next sprite gets when it has no explicit one: automatic numbering continues across entries
            let mut next_id = 0usize;
            for e in 0..nentries {
                let nsprites = t.below(5);
                let mut sprites = vec![];
                for s in 0..nsprites {
                    // explicit ids only ever skip forwards, so no two different sprites of an entry share an id
                    // (the reader keeps one sprite per id and warns)
                    let id = if t.chance(1, 4) { next_id += t.below(3); format!("id: {}, ", next_id) } else { String::new() };
                    next_id += 1;
                    sprites.push(format!("sprite{}_{}: {{{}x: {}, y: {}, w: {}, h: {}}}", e, s, id, fmt_f32(*t.pick(&[0.0f32, 1.0, 16.5])), fmt_f32(*t.pick(&[0.0f32, 32.0])), fmt_f32(*t.pick(&[512.0f32, 16.0, 1.0])), fmt_f32(*t.pick(&[480.0f32, 16.0]))));
                }
                // (the pre-TH11 header has no low_res_scale / offset_x / offset_y; the later one has no colorkey)
                let extra = if g >= Game::Th11 && t.chance(1, 3) { format!("    low_res_scale: {},\n", t.bool()) } else { String::new() };
                let colorkey = if g < Game::Th07 && t.chance(1, 2) { "    colorkey: 0xff00ff,\n".to_string() } else { String::new() };
                let offs = if g >= Game::Th11 && t.chance(1, 4) { format!("    offset_x: {},\n    offset_y: {},\n", t.below(9), t.below(9)) } else { String::new() };
                let path2 = if g < Game::Th11 && t.chance(1, 5) { "    path_2: \"subdir/file_a.png\",\n".to_string() } else { String::new() };
                let path = *t.pick(&["subdir/file.png", "a.png", "@R", "data/ascii/ascii.png", "サブ/画像.png"]);
                let img = if !path.starts_with('@') && t.chance(1, 3) {
                    feats.push("image".into());
                    let (w, h) = (*t.pick(&[4u32, 1, 16, 7, 64]), *t.pick(&[4u32, 2, 16, 5]));
                    let rt = if t.chance(1, 2) { format!("    rt_width: {},\n    rt_height: {},\n", w.next_power_of_two() * *t.pick(&[1u32, 2]), h.next_power_of_two()) } else { String::new() };
                    format!("    has_data: \"dummy\",\n    img_width: {},\n    img_height: {},\n    img_format: {},\n{}", w, h, *t.pick(&[1, 3, 5, 7]), rt)
                } else {
                    format!("    has_data: false,\n    rt_width: {},\n    rt_height: {},\n    rt_format: {},\n", *t.pick(&[512, 256, 1024, 16]), *t.pick(&[512, 128, 1]), *t.pick(&[1, 3, 5, 7]))
                };
                out.push_str(&format!("entry {{\n    path: {},\n{}{}    memory_priority: {},\n{}{}{}    sprites: {{{}}},\n}}\n\n",
                    fmt_str_lit(path), path2, img, if g < Game::Th07 { 0 } else { *t.pick(&[10, 0, 1]) }, extra, colorkey, offs, sprites.join(", ")));
                let nscripts = t.below(4);
                for _ in 0..nscripts {
                    let opts = BodyOpts { max_stmts: body_stmts, registers: !lang.int_regs.is_empty(), control_flow: true, strings_only_safe: true, neg_times: true };
                    let mut b = RealBody::new(t, &lang, opts, 30000);
                    let n = b.t.below(body_stmts + 1);
                    let mut body = b.stmts(n, 2, 1);
                    // EoSD ANM: the terminating instructions (0, 15) may only come last; avoid them mid-script
                    if g == Game::Th06 { body = body.lines().filter(|l| !(l.trim_start().starts_with("ins_0(") || l.trim_start().starts_with("ins_15("))).map(|l| format!("{}\n", l)).collect(); }
                    labels.push(b.labels.clone());
                    for f in &b.feats { if !feats.contains(&f.to_string()) { feats.push(f.to_string()); } }
                    let num = if t.chance(1, 2) { format!("{} ", next_script) } else { String::new() };
                    out.push_str(&format!("script {}script{} {{\n{}}}\n\n", num, next_script, body));
                    next_script += 1;
                }
            }
            out
        }
        Fmt::Std => {
            let lang = cached_lang(game, LanguageKey::Std);
            let old = g < Game::Th095;
            let nobj = t.below(4);
            let mut objs = vec![];
            for i in 0..nobj {
                let nq = t.below(4);
                let quads: Vec<String> = (0..nq).map(|_| {
                    if (g == Game::Th08 || g == Game::Th09) && t.chance(1, 3) { feats.push("strip".into()); format!("strip {{anm_script: {}, start: {}, end: {}, width: {}}}", t.below(20), f3(t), f3(t), fmt_f32(16.0)) }
                    else { format!("rect {{anm_script: {}, pos: {}, size: {}}}", t.below(20), f3(t), f2(t)) }
                }).collect();
                objs.push(format!("        object{}: {{layer: {}, pos: {}, size: {}, quads: [{}]}}", i, t.below(5), f3(t), f3(t), quads.join(", ")));
            }
            let ninst = if nobj > 0 { t.below(5) } else { 0 };
            let insts: Vec<String> = (0..ninst).map(|_| { let unk = if t.chance(1, 4) { format!("unknown: {}, ", *t.pick(&[0, 256, 257])) } else { String::new() }; format!("object{} {{{}pos: {}}}", t.below(nobj), unk, f3(t)) }).collect();
            let head = if old {
                let bgm: Vec<String> = (0..4).map(|_| format!("{{path: {}, name: {}}}", fmt_str_lit(*t.pick(TEXTS)), fmt_str_lit(*t.pick(TEXTS)))).collect();
                format!("    unknown: {},\n    stage_name: {},\n    bgm: [{}],\n", *t.pick(&[0, 1]), fmt_str_lit(*t.pick(TEXTS)), bgm.join(", "))
            } else { format!("    unknown: {},\n    anm_path: {},\n", *t.pick(&[0, 1]), fmt_str_lit(*t.pick(TEXTS))) };
            let opts = BodyOpts { max_stmts: body_stmts, registers: false, control_flow: true, strings_only_safe: true, neg_times: true };
            let mut b = RealBody::new(t, &lang, opts, 100000);
            let n = b.t.below(body_stmts + 1);
            let body = b.stmts(n, 2, 1);
            labels.push(b.labels.clone());
            for f in &b.feats { feats.push(f.to_string()); }
            format!("meta {{\n{}    objects: {{\n{}\n    }},\n    instances: [{}],\n}}\n\nscript main {{\n{}}}\n", head, objs.join(",\n"), insts.join(", "), body)
        }
        Fmt::Msg | Fmt::End => {
            let language = if fmt == Fmt::Msg { LanguageKey::Msg } else { LanguageKey::End };
            let lang = cached_lang(game, language);
            let nscripts = 1 + t.below(4);
            let mut table = vec![];
            let mut key = 0;
            let with_flags = fmt == Fmt::Msg && g >= Game::Th09;
            let nrefs = nscripts + t.below(3);
            for r in 0..nrefs {
                // every script is referenced at least once (an unreferenced one is a documented warning: it is dropped)
                let s = if r < nscripts { r } else { t.below(nscripts) };
                let flags = if with_flags && t.chance(1, 2) { format!(", flags: {}", *t.pick(&[256, 0, 1])) } else { String::new() };
                table.push(format!("        {}: {{script: \"script{}\"{}}}", key, s, flags));
                key += 1 + if t.chance(1, 4) { feats.push("sparse_table".into()); t.below(4) } else { 0 };
            }
            if t.chance(1, 3) { feats.push("default_entry".into()); table.push(format!("        default: {{script: \"script{}\"}}", t.below(nscripts))); }
            let mut out = format!("meta {{\n    table: {{\n{}\n    }},\n}}\n\n", table.join(",\n"));
            for i in 0..nscripts {
                let opts = BodyOpts { max_stmts: body_stmts, registers: false, control_flow: false, strings_only_safe: true, neg_times: false };
                let mut b = RealBody::new(t, &lang, opts, 30000);
                let n = b.t.below(body_stmts + 1);
                let body = b.stmts(n, 0, 1);
                labels.push(b.labels.clone());
                    for f in &b.feats { if !feats.contains(&f.to_string()) { feats.push(f.to_string()); } }
                out.push_str(&format!("script script{} {{\n{}}}\n\n", i, body));
            }
            out
        }
        Fmt::Mission => {
            let n = 1 + t.below(4);
            let mut out = String::new();
            for _ in 0..n {
                let lines = if g == Game::Th095 { 3 } else { 6 };
                let text: Vec<String> = (0..lines).map(|_| fmt_str_lit(*t.pick(&["", "Take a picture", "撮影せよ", "ﾎﾞｽ", "abc def", "0123456789012345678901234567890"]))).collect();
                if g == Game::Th095 { out.push_str(&format!("entry {{\n    stage: {},\n    scene: {},\n    face: {},\n    point: {},\n    text: [{}],\n}}\n\n", t.below(12), t.below(9), t.below(5), *t.pick(&[0, 100, 100000]), text.join(", "))); }
                else { out.push_str(&format!("entry {{\n    stage: {},\n    scene: {},\n    player: {},\n    unknown_1: {},\n    unknown_2: {},\n    point_1: {},\n    point_2: {},\n    furigana: [[{}, {}], [0, 0], [3, 4]],\n    text: [{}],\n}}\n\n", t.below(14), t.below(9), t.below(2), t.below(3), t.below(3), *t.pick(&[0, 1000]), *t.pick(&[0, 5]), t.below(9), t.below(9), text.join(", "))); }
            }
            out
        }
        Fmt::Ecl if g >= Game::Th10 => {
            // modern (TH10+) ECL: `void name() { .. }` subs over the built-in instruction table, optional meta with the
            // ANIM / ECLI include lists; no timelines, no sub parameters
            let lang = cached_lang(game, LanguageKey::Ecl);
            let mut out = String::new();
            if t.chance(2, 3) {
                let anim: Vec<String> = (0..t.below(3)).map(|_| fmt_str_lit(*t.pick(&["enemy.anm", "stgenm01.anm", "ｶﾅ.anm", ""]))).collect();
                let ecli: Vec<String> = (0..t.below(3)).map(|_| fmt_str_lit(*t.pick(&["default.ecl", "st01mbs.ecl", "表.ecl"]))).collect();
                out.push_str(&format!("meta {{\n    anim: [{}],\n    ecli: [{}],\n}}\n\n", anim.join(", "), ecli.join(", ")));
            }
            let nsubs = 1 + t.below(4);
            for i in 0..nsubs {
                let opts = BodyOpts { max_stmts: body_stmts, registers: false, control_flow: true, strings_only_safe: true, neg_times: false };
                let mut b = RealBody::new(t, &lang, opts, 30000);
                let n = b.t.below(body_stmts + 1);
                let body = b.stmts(n, 2, 1);
                labels.push(b.labels.clone());
                for f in &b.feats { if !feats.contains(&f.to_string()) { feats.push(f.to_string()); } }
                out.push_str(&format!("void {}() {{\n{}}}\n\n", if i == 0 { "main".to_string() } else { format!("Sub{}", i) }, body));
            }
            feats.push("modern-ecl".to_string());
            out
        }
        Fmt::Ecl => {
            let lang = cached_lang(game, LanguageKey::Ecl);
            let tl = cached_lang(game, LanguageKey::Timeline);
            let nsubs = 1 + t.below(4);
            let ntl = match g { Game::Th06 => 1, Game::Th09 => 1 + t.below(4), _ => 1 + t.below(3) };
            let mut out = String::new();
            for i in 0..ntl {
                let opts = BodyOpts { max_stmts: body_stmts, registers: false, control_flow: false, strings_only_safe: true, neg_times: false };
                let mut b = RealBody::new(t, &tl, opts, 30000);
                let n = b.t.below(4);
                let body = b.stmts(n, 0, 1);
                labels.push(b.labels.clone());
                    for f in &b.feats { if !feats.contains(&f.to_string()) { feats.push(f.to_string()); } }
                out.push_str(&format!("script timeline{} {{\n{}}}\n\n", i, body));
            }
            // subs with parameters (TH06: at most one int and one float), called by name from other subs
            let callables: Vec<(String, Vec<char>)> = (0..nsubs).map(|i| {
                let (mi, mf) = if g == Game::Th06 { (1, 1) } else { (2, 2) };
                let (ni, nf) = if t.chance(1, 2) { (0, 0) } else { (t.below(mi + 1), t.below(mf + 1)) };
                (format!("Sub{}", i), std::iter::repeat('i').take(ni).chain(std::iter::repeat('f').take(nf)).collect())
            }).collect();
            for i in 0..nsubs {
                let opts = BodyOpts { max_stmts: body_stmts, registers: true, control_flow: true, strings_only_safe: true, neg_times: false };
                let mut b = RealBody::new(t, &lang, opts, 30000);
                b.callables = callables.clone();
                let n = b.t.below(body_stmts + 1);
                let body = b.stmts(n, 2, 1);
                labels.push(b.labels.clone());
                    for f in &b.feats { if !feats.contains(&f.to_string()) { feats.push(f.to_string()); } }
                let params: Vec<String> = callables[i].1.iter().enumerate().map(|(k, c)| if *c == 'i' { format!("int a{}", k) } else { format!("float f{}", k) }).collect();
                out.push_str(&format!("void Sub{}({}) {{\n{}}}\n\n", i, params.join(", "), body));
            }
            out
        }
    };
    let _ = StrSize::Block(4);
    feats.sort(); feats.dedup();
    GenFile { fmt, game: game.to_string(), text, feats, labels }
}

// =============================================================================
// C03: boundary-valued files whose scripts consist of raw-blob instructions, with the requested
// (time, opcode, blob[, mask / arg0 / difficulty]) recorded alongside.

#[derive(Clone, Debug)]
pub struct ReqInstr { pub time: i64, pub opcode: i64, pub blob: Vec<u8>, pub mask: Option<i64>, pub arg0: Option<i64>, /// TH10+ ECL header fields
    pub pop: Option<i64>, pub nargs: Option<i64>, /// for a typed call: (signature text, requested argument values; None for non-integers)
    pub typed: Option<(String, Vec<Option<i64>>)> }

pub const B_U16: &[i64] = &[0, 1, 2, 255, 256, 32767, 32768, 65535, 65536, 65537, 70000, 0x7fffffff];
pub const B_U32: &[i64] = &[0, 1, 255, 65535, 65536, 0x7fffffff, 16, 512];
pub const B_TIME: &[i64] = &[0, 1, 10, 127, 128, 255, 256, 32767, 32768, 65535, 65536, -1, -2, -32768, -32769, 2147483647, -2147483648];
pub const B_OPCODE: &[i64] = &[0, 1, 2, 5, 127, 128, 255, 256, 300, 32767, 32768, 65534, 65535];
pub const B_BLOBLEN: &[usize] = &[0, 4, 8, 12, 16, 248, 252, 256, 260, 65524, 65528, 65532, 65536];

pub const B_ARG: &[i64] = &[0, 1, -1, 127, 128, -128, -129, 255, 256, 32767, 32768, -32768, -32769, 65535, 65536, 70000, 2147483647, -2147483648];

fn raw_script(t: &mut Tape, fmt: Fmt, timeline: bool, th06_std: bool, no_mask: bool, max_instrs: usize) -> (String, Vec<ReqInstr>) {
    raw_script_in(t, fmt, timeline, th06_std, no_mask, max_instrs, None)
}

fn raw_script_in(t: &mut Tape, fmt: Fmt, timeline: bool, th06_std: bool, no_mask: bool, max_instrs: usize, lang: Option<&RealLang>) -> (String, Vec<ReqInstr>) {
    // TH10+ ECL instructions also carry a stack-pop byte and an argument count
    let modern = lang.map_or(false, |l| l.modern_ecl);
    let n = t.below(max_instrs + 1);
    let mut out = String::new();
    let mut req = vec![];
    let mut time: i64 = 0;
    // typed calls: built-in instructions without jumps / strings / timeline arg0, arguments at the boundaries of 8/16/32-bit fields
    let typed_ops: Vec<u16> = lang.map(|l| l.sigs.iter().filter(|(op, sig)| !l.intrinsic_ops.contains(op) && !sig.real_params().is_empty() && !sig.params.iter().any(|p| matches!(p.kind, PKind::Off | PKind::Time) || p.is_string() || p.arg0)).map(|(op, _)| *op).collect()).unwrap_or_default();
    for _ in 0..n {
        if !typed_ops.is_empty() && t.chance(1, 2) {
            let l = lang.unwrap();
            let op = *t.pick(&typed_ops);
            let sig = l.sigs[&op].clone();
            let mut vals = vec![]; let mut texts = vec![];
            for p in sig.real_params() {
                if p.is_float() { vals.push(None); texts.push("1.5".to_string()); }
                else { let v = if t.chance(2, 3) { *t.pick(B_ARG) } else { t.below(100) as i64 }; let v = if l.eosd_regs && (-10025..=-10001).contains(&v) { 7 } else { v }; vals.push(Some(v)); texts.push(format!("{}", v)); }
            }
            // sometimes with an explicit parameter mask (it must be stored as given, also on every copy of a difficulty-switched
            // instruction) and, in ECL, with one integer argument written as a four-way difficulty switch
            let mut pseudo = String::new(); let mut mask = None;
            if matches!(fmt, Fmt::Anm | Fmt::Ecl) && !timeline && !no_mask && t.chance(1, 3) { let m = *t.pick(&[1i64, 0, 2, 3, 255]); mask = Some(m); pseudo = format!("@mask={}, ", m); }
            let int_pos: Vec<usize> = vals.iter().enumerate().filter(|(_, v)| v.is_some()).map(|(i, _)| i).collect();
            if fmt == Fmt::Ecl && !timeline && !int_pos.is_empty() && t.chance(1, 3) {
                let k = *t.pick(&int_pos);
                let base = vals[k].unwrap();
                let alts: Vec<i64> = vec![base, (base ^ 1), (base ^ 2), (base ^ 3)];
                texts[k] = format!("{}:{}:{}:{}", alts[0], alts[1], alts[2], alts[3]);
                out.push_str(&format!("    ins_{}({}{});\n", op, pseudo, texts.join(", ")));
                for a in alts { let mut v2 = vals.clone(); v2[k] = Some(a); req.push(ReqInstr { time, opcode: op as i64, blob: vec![], mask, arg0: None, pop: None, nargs: None, typed: Some((sig.print(), v2)) }); }
                continue;
            }
            out.push_str(&format!("    ins_{}({}{});\n", op, pseudo, texts.join(", ")));
            req.push(ReqInstr { time, opcode: op as i64, blob: vec![], mask, arg0: None, pop: None, nargs: None, typed: Some((sig.print(), vals)) });
            continue;
        }
        if t.chance(1, 3) { time = if t.chance(1, 2) { *t.pick(B_TIME) } else { t.below(200) as i64 }; out.push_str(&format!("{}:\n", time)); }
        let opcode = if t.chance(1, 2) { *t.pick(B_OPCODE) } else { 1 + t.below(60) as i64 };
        let len = if th06_std { 12 } else if t.chance(1, 6) { *t.pick(B_BLOBLEN) } else { 4 * t.below(5) };
        let fill = *t.pick(&[0u8, 0xff, 0x41]);
        let blob: Vec<u8> = (0..len).map(|i| if i < 4 { (i as u8).wrapping_add(fill) } else { fill }).collect();
        let hex: String = blob.chunks(4).map(|c| c.iter().map(|b| format!("{:02x}", b)).collect::<String>()).collect::<Vec<_>>().join(" ");
        let mut pseudo = vec![];
        let mut mask = None; let mut arg0 = None;
        if matches!(fmt, Fmt::Anm | Fmt::Ecl) && !timeline && !no_mask && t.chance(1, 3) { let m = *t.pick(&[0i64, 1, 255, 256, 65535, 65536]); mask = Some(m); pseudo.push(format!("@mask={}", m)); }
        // formats whose instruction header has no mask field (MSG, STD, timelines; also TH06 ANM, reached by the line above): a requested non-zero mask cannot be stored
        else if (matches!(fmt, Fmt::Msg | Fmt::End | Fmt::Std) || timeline) && t.chance(1, 8) { let m = *t.pick(&[1i64, 0, 255, 65536]); mask = Some(m); pseudo.push(format!("@mask={}", m)); }
        if timeline && t.chance(1, 2) { let a = *t.pick(&[0i64, 1, 4, -1, 32767, 32768, 65535, -32768, -32769, 65536]); arg0 = Some(a); pseudo.push(format!("@arg0={}", a)); }
        let (mut pop, mut nargs) = (None, None);
        if modern && t.chance(1, 3) { let p = *t.pick(&[0i64, 1, 4, 255, 256, -1, 65536]); pop = Some(p); pseudo.push(format!("@pop={}", p)); }
        if modern && t.chance(1, 3) { let n = *t.pick(&[0i64, 1, 2, 255, 256, -1]); nargs = Some(n); pseudo.push(format!("@nargs={}", n)); }
        pseudo.push(format!("@blob=\"{}\"", hex));
        out.push_str(&format!("    ins_{}({});\n", opcode, pseudo.join(", ")));
        req.push(ReqInstr { time, opcode, blob, mask, arg0, pop, nargs, typed: None });
    }
    (out, req)
}

/// a metadata string around the capacity `cap` (bytes incl. terminator) of a fixed-size field: ASCII and double-byte text
fn boundary_string(t: &mut Tape, cap: usize) -> String {
    match t.below(8) {
        0 | 1 | 2 => "a".to_string(),
        3 => String::new(),
        4 => "x".repeat(*t.pick(&[cap - 2, cap - 1, cap, cap + 1])),
        5 => "\u{30a2}".repeat(*t.pick(&[cap / 2 - 1, cap / 2, cap / 2 + 1, cap - 1])),   // full-width kana: 2 bytes each
        6 => format!("{}{}", "x".repeat(cap - 3), "\u{8868}"),                               // a double-byte character straddling the end
        _ => "\u{ff71}".repeat(*t.pick(&[cap - 1, cap])),                                   // half-width kana: 1 byte each
    }
}

pub struct C03File { pub text: String, pub scripts: Vec<Vec<ReqInstr>>, pub feats: Vec<String> }

/// `many`: 0 = normal sizes; otherwise the number of objects / sprites / table entries / subs to emit (count-field boundaries).
pub fn gen_c03_file(t: &mut Tape, fmt: Fmt, game: &str, many: usize) -> C03File {
    let g = crate::files::game_from_str(game);
    let mut scripts = vec![];
    let mut feats: Vec<String> = vec![];
    let u16b = |t: &mut Tape| -> i64 { if t.chance(1, 2) { *t.pick(B_U16) } else { t.below(20) as i64 } };
    let u32b = |t: &mut Tape| -> i64 { if t.chance(1, 2) { *t.pick(B_U32) } else { t.below(20) as i64 } };
    let text = match fmt {
        Fmt::Anm => {
            let mut out = String::new();
            let nentries = 1 + t.below(2);
            let mut k = 0;
            for e in 0..nentries {
                let nsprites = if many > 0 && e == 0 { many } else { t.below(3) };
                let sprites: Vec<String> = (0..nsprites).map(|s| format!("sprite{}: {{id: {}, x: 0.0, y: 0.0, w: 1.0, h: 1.0}}", 1000 * e + s, 1000 * e + s)).collect();
                out.push_str(&format!("entry {{\n    path: \"a{}.png\",\n    has_data: false,\n    rt_width: {},\n    rt_height: {},\n    rt_format: {},\n    offset_x: {},\n    offset_y: {},\n    colorkey: {},\n    memory_priority: {},\n    sprites: {{{}}},\n}}\n\n",
                    e, u32b(t), u32b(t), u32b(t), u32b(t), u32b(t), if g < Game::Th07 { u32b(t) } else { 0 }, if g < Game::Th07 { 0 } else { u32b(t) }, sprites.join(", ")));
                for _ in 0..t.below(3) {
                    let lang = cached_lang(game, LanguageKey::Anm);
                    let (body, req) = raw_script_in(t, fmt, false, false, false, 5, Some(&lang));
                    let id = if t.chance(1, 3) { format!("{} ", *t.pick(&[0i64, 5, 65535, 65536, 0x7fffffff, -1])) } else { String::new() };
                    out.push_str(&format!("script {}script{} {{\n{}}}\n\n", id, k, body));
                    scripts.push(req); k += 1;
                }
            }
            out
        }
        Fmt::Std => {
            let old = g < Game::Th095;
            let nobj = if many > 0 { many } else { 1 + t.below(3) };
            let objs: Vec<String> = (0..nobj).map(|i| {
                let quads: Vec<String> = (0..(if many > 0 { 0 } else { t.below(3) })).map(|_| format!("rect {{anm_script: {}, pos: [0.0, 0.0, 0.0], size: [1.0, 1.0]}}", u16b(t))).collect();
                format!("        object{}: {{layer: {}, pos: [0.0, 0.0, 0.0], size: [1.0, 1.0, 1.0], quads: [{}]}}", i, u16b(t), quads.join(", "))
            }).collect();
            let insts: Vec<String> = (0..t.below(4)).map(|_| format!("object{} {{unknown: {}, pos: [1.0, 2.0, 3.0]}}", t.below(nobj.min(70000)), *t.pick(&[256i64, 0, 257, 65535, 65536]))).collect();
            let head = if old {
                let bgm: Vec<String> = (0..4).map(|_| format!("{{path: {}, name: {}}}", fmt_str_lit(&boundary_string(t, 128)), fmt_str_lit(&boundary_string(t, 128)))).collect();
                format!("    unknown: {},\n    stage_name: {},\n    bgm: [{}],\n", u32b(t), fmt_str_lit(&boundary_string(t, 128)), bgm.join(", "))
            } else { format!("    unknown: {},\n    anm_path: {},\n", u32b(t), fmt_str_lit(&boundary_string(t, 128))) };
            let (body, req) = raw_script(t, fmt, false, old, false, 6);
            scripts.push(req);
            format!("meta {{\n{}    objects: {{\n{}\n    }},\n    instances: [{}],\n}}\n\nscript main {{\n{}}}\n", head, objs.join(",\n"), insts.join(", "), body)
        }
        Fmt::Msg | Fmt::End => {
            let nscripts = 1 + t.below(3);
            let with_flags = fmt == Fmt::Msg && g >= Game::Th09;
            let nrefs = if many > 0 { many } else { nscripts };
            let table: Vec<String> = (0..nrefs).map(|r| format!("        {}: {{script: \"script{}\"{}}}", r, r % nscripts, if with_flags && t.chance(1, 3) { format!(", flags: {}", u32b(t)) } else { String::new() })).collect();
            let mut out = format!("meta {{\n    table: {{\n{}\n    }},\n}}\n\n", table.join(",\n"));
            let lang = cached_lang(game, if fmt == Fmt::Msg { LanguageKey::Msg } else { LanguageKey::End });
            for i in 0..nscripts {
                let (body, req) = raw_script_in(t, fmt, false, false, false, 5, Some(&lang));
                out.push_str(&format!("script script{} {{\n{}}}\n\n", i, body));
                scripts.push(req);
            }
            out
        }
        Fmt::Mission => {
            let n = if many > 0 { many } else { 1 + t.below(3) };
            let mut out = String::new();
            for _ in 0..n {
                let lines: Vec<String> = (0..(if g == Game::Th095 { 3 } else { 6 })).map(|_| fmt_str_lit(&boundary_string(t, 64))).collect();
                if g == Game::Th095 { out.push_str(&format!("entry {{\n    stage: {},\n    scene: {},\n    face: {},\n    point: {},\n    text: [{}],\n}}\n\n", u16b(t), u16b(t), u32b(t), u32b(t), lines.join(", "))); }
                else { out.push_str(&format!("entry {{\n    stage: {},\n    scene: {},\n    player: {},\n    unknown_1: {},\n    unknown_2: {},\n    point_1: {},\n    point_2: {},\n    furigana: [[{}, {}], [0, 0], [3, 4]],\n    text: [{}],\n}}\n\n", u16b(t), u16b(t), u16b(t), u32b(t), u32b(t), u32b(t), u32b(t), u32b(t), u32b(t), lines.join(", "))); }
            }
            out
        }
        Fmt::Ecl if g >= Game::Th10 => {
            // TH10+ ECL: subs of raw-blob / typed instructions (16-byte header: time i32, opcode u16, size u16, mask u16,
            // difficulty u8, argument count u8, pop u8)
            let nsubs = if many > 0 { many } else { 1 + t.below(3) };
            let mut out = String::new();
            let lang = cached_lang(game, LanguageKey::Ecl);
            for i in 0..nsubs {
                let (body, req) = if many > 0 { (String::new(), vec![]) } else { raw_script_in(t, fmt, false, false, false, 5, Some(&lang)) };
                out.push_str(&format!("void {}() {{\n{}}}\n\n", if i == 0 { "main".to_string() } else { format!("sub{}", i) }, body));
                scripts.push(req);
            }
            feats.push("modern-ecl".to_string());
            out
        }
        Fmt::Ecl => {
            let ntl = match g { Game::Th06 => 1, _ => 1 + t.below(2) };
            let nsubs = if many > 0 { many } else { 1 + t.below(3) };
            let mut out = String::new();
            for i in 0..ntl {
                let (body, req) = raw_script(t, fmt, true, false, false, 4);
                out.push_str(&format!("script timeline{} {{\n{}}}\n\n", i, body));
                scripts.push(req);
            }
            for i in 0..nsubs {
                let lang = cached_lang(game, LanguageKey::Ecl);
                let (body, req) = if many > 0 { (String::new(), vec![]) } else { raw_script_in(t, fmt, false, false, g == Game::Th06, 5, Some(&lang)) };
                out.push_str(&format!("void sub{}() {{\n{}}}\n\n", i, body));
                scripts.push(req);
            }
            out
        }
    };
    if many > 0 { feats.push("many".into()); }
    C03File { text, scripts, feats }
}
