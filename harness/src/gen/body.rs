//! G-prog body generator: well-typed, well-scoped, terminating script bodies for a LangSpec.
use std::collections::BTreeSet;
use crate::engine::Tape;
use super::prog::*;
use super::lang::*;

#[derive(Clone, Debug)]
pub struct BodyCfg {
    pub structured: bool,
    pub raw_jumps: bool,
    pub time_labels: bool,
    pub diff: bool,
    pub locals: bool,
    pub calls: bool,
    pub assigns: bool,
    pub interrupts: bool,
    pub max_stmts: usize,
    pub max_depth: usize,
    pub expr_depth: usize,
    /// keep the register-inside-difficulty-switch shape (known finding C05/b) out of the search
    pub exclude_reg_in_diff_switch: bool,
    /// `times` counts may be registers/expressions (else only literals)
    pub dynamic_counts: bool,
    /// end the body with the sentinel call
    pub sentinel: bool,
    /// allow absolute time labels that decrease the time (or are negative)
    pub time_decrease: bool,
    /// allow a difficulty switch directly inside a case of another one
    pub nested_diff_switch: bool,
    /// allow ternaries whose condition is a compile-time constant (the dropped branch may hold the only mention of a register)
    pub const_ternary_cond: bool,
    /// put difficulty labels on structured statements too
    pub label_structured: bool,
    /// bias towards declaring more locals (C05)
    pub more_locals: bool,
    /// emit `const` items inside bodies and use them in expressions
    pub const_items: bool,
    /// known finding: the initial conditional jump of a labelled `while (..)` / `if (..)` loses its difficulty label
    pub exclude_label_on_cond_region: bool,
    /// raw jumps may carry an explicit `@ time` different from the time in effect (C02 only: both the reference interpreter
    /// and the emitted jump instruction set the clock to that value when, and only when, the jump is taken)
    pub explicit_jump_times: bool,
}

impl BodyCfg {
    pub fn full() -> BodyCfg {
        BodyCfg { structured: true, raw_jumps: true, time_labels: true, diff: true, locals: true, calls: true, assigns: true, interrupts: false,
                  max_stmts: 14, max_depth: 3, expr_depth: 3, exclude_reg_in_diff_switch: false, dynamic_counts: true, sentinel: true, time_decrease: false, nested_diff_switch: true, const_ternary_cond: true, label_structured: false, more_locals: false, const_items: false, exclude_label_on_cond_region: false, explicit_jump_times: false }
    }
}

pub const INT_LITS: &[i32] = &[0, 1, 2, 3, -1, 5, 7, 10, -7, 31, 32, 33, 100, 255, 256, 65535, 65536, i32::MAX, i32::MIN, i32::MIN + 1, -32, 1000000];
pub const FLOAT_LITS: &[f32] = &[0.0, 1.0, 0.5, 2.0, -1.0, 1.5, -0.25, 3.0, 0.1, 7.75, -2.5, 100.0, 0.001, 16.0, -0.0];
pub const NZ_INT: &[i32] = &[1, 2, 3, -1, -2, 7, 16, 1000, i32::MAX, i32::MIN];
pub const NZ_FLOAT: &[f32] = &[1.0, 2.0, 0.5, -1.5, 3.0, 0.25];

pub struct BodyGen<'a, 'b> {
    pub tape: &'a mut Tape<'b>,
    pub spec: &'a LangSpec,
    pub avail: Avail,
    pub cfg: BodyCfg,
    /// registers (ids) the program is allowed to mention
    pub usable: BTreeSet<i32>,
    scopes: Vec<Vec<(String, Ty)>>,
    reserved: Vec<VarRef>,
    live_locals: [usize; 2],
    max_locals: [usize; 2],
    next_local: usize,
    next_label: usize,
    loop_depth: usize,
    budget: usize,
    free_loopvars: Vec<i32>,
    free_scratch: [usize; 2],
    /// textual current time (time is linear in textual order)
    tcur: i32,
    in_diff_switch: bool,
    consts: Vec<(String, Ty)>,
    const_marks: Vec<usize>,
    next_const: usize,
}

fn tyi(ty: Ty) -> usize { if ty == Ty::Int { 0 } else { 1 } }

impl<'a, 'b> BodyGen<'a, 'b> {
    pub fn new(tape: &'a mut Tape<'b>, spec: &'a LangSpec, cfg: BodyCfg) -> Self {
        let avail = spec.avail();
        // choose the registers the source may mention: non-scratch always, scratch ones with probability 1/3
        let mut usable = BTreeSet::new();
        for r in &spec.regs {
            if !r.scratch || tape.chance(1, 3) { usable.insert(r.id); }
        }
        let free = |ty: Ty| spec.regs.iter().filter(|r| r.scratch && r.ty == Some(ty) && !usable.contains(&r.id)).count();
        let free_scratch = [free(Ty::Int), free(Ty::Float)];
        let max_locals = if cfg.more_locals { [free(Ty::Int) + 1, free(Ty::Float) + 1] } else { [free(Ty::Int).saturating_sub(1), free(Ty::Float).saturating_sub(1)] };
        let free_loopvars = spec.regs.iter().filter(|r| r.class == RegClass::LoopVar).map(|r| r.id).collect();
        let budget = cfg.max_stmts;
        BodyGen { tape, spec, avail, cfg, usable, scopes: vec![vec![]], reserved: vec![], live_locals: [0, 0], max_locals, next_local: 0, next_label: 0, loop_depth: 0, budget, free_loopvars, free_scratch, tcur: 0, in_diff_switch: false, consts: vec![], const_marks: vec![], next_const: 0 }
    }

    fn reg_ref(&self, r: &RegSpec) -> VarRef {
        VarRef::Reg { id: r.id, ty: r.ty, alias: r.alias.clone() }
    }

    fn reg_ref_spelled(&mut self, r: &RegSpec) -> VarRef {
        // aliases may also be spelled raw
        let use_alias = r.alias.is_some() && !self.tape.chance(1, 4);
        VarRef::Reg { id: r.id, ty: r.ty, alias: if use_alias { r.alias.clone() } else { None } }
    }

    fn is_reserved(&self, v: &VarRef) -> bool { self.reserved.iter().any(|r| r.same_storage(v)) }

    /// variables readable with inherent type `ty` (registers of any class, locals in scope)
    fn readable(&self, ty: Option<Ty>) -> Vec<VarRef> {
        let mut out = vec![];
        for r in &self.spec.regs { if r.ty == ty && self.usable.contains(&r.id) { out.push(self.reg_ref(r)); } }
        if let Some(ty) = ty { for sc in &self.scopes { for (n, t) in sc { if *t == ty { out.push(VarRef::Local { name: n.clone(), ty }); } } } }
        out
    }

    fn writable(&self, ty: Ty) -> Vec<VarRef> {
        let mut out = vec![];
        for r in &self.spec.regs { if r.ty == Some(ty) && r.class == RegClass::Gp && self.usable.contains(&r.id) { let v = self.reg_ref(r); if !self.is_reserved(&v) { out.push(v); } } }
        for sc in &self.scopes { for (n, t) in sc { if *t == ty { let v = VarRef::Local { name: n.clone(), ty }; if !self.is_reserved(&v) { out.push(v); } } } }
        out
    }

    fn respell(&mut self, v: VarRef) -> VarRef {
        match v {
            VarRef::Reg { id, ty, alias } => { let keep = alias.is_some() && !self.tape.chance(1, 4); VarRef::Reg { id, ty, alias: if keep { alias } else { None } } }
            l => l,
        }
    }

    pub fn lit(&mut self, ty: Ty) -> Expr {
        match ty {
            Ty::Int => { if self.tape.chance(1, 8) { Expr::LitI(self.tape.i32_any()) } else { Expr::LitI(*self.tape.pick(INT_LITS)) } }
            Ty::Float => Expr::LitF(*self.tape.pick(FLOAT_LITS)),
            Ty::Str => Expr::LitS("s".into()),
        }
    }

    fn nonzero_lit(&mut self, ty: Ty) -> Expr {
        match ty { Ty::Int => Expr::LitI(*self.tape.pick(NZ_INT)), _ => Expr::LitF(*self.tape.pick(NZ_FLOAT)) }
    }

    /// An atom of type `ty`: literal or variable read (possibly through a casting sigil).
    pub fn atom(&mut self, ty: Ty) -> Expr {
        if self.cfg.const_items && self.tape.chance(1, 8) {
            let cs: Vec<String> = self.consts.iter().filter(|(_, t)| *t == ty).map(|(n, _)| n.clone()).collect();
            if !cs.is_empty() { let n = self.tape.pick(&cs).clone(); return Expr::Const(n, ty); }
        }
        let k = self.tape.below(6);
        match k {
            0 | 1 => self.lit(ty),
            2 | 3 => {
                let vars = self.readable(Some(ty));
                if vars.is_empty() { return self.lit(ty); }
                let v = self.tape.pick(&vars).clone();
                let v = self.respell(v);
                // redundant sigil sometimes
                let sigil = if self.tape.chance(1, 5) { Some(ty) } else { None };
                Expr::Var(VarUse { var: v, sigil })
            }
            4 => {
                // read a variable of the other type through a casting sigil
                let vars = self.readable(Some(ty.other()));
                if vars.is_empty() { return self.lit(ty); }
                let v = self.tape.pick(&vars).clone();
                let v = self.respell(v);
                Expr::Var(VarUse { var: v, sigil: Some(ty) })
            }
            _ => {
                // untyped register with a sigil
                let vars = self.readable(None);
                if vars.is_empty() { return self.lit(ty); }
                let v = self.tape.pick(&vars).clone();
                let v = self.respell(v);
                Expr::Var(VarUse { var: v, sigil: Some(ty) })
            }
        }
    }

    /// how deep an expression of this type can be without (likely) exhausting the scratch registers
    fn depth_budget(&self, ty: Ty) -> usize {
        let i = tyi(ty);
        self.free_scratch[i].saturating_sub(self.live_locals[i])
    }

    pub fn expr(&mut self, ty: Ty, depth: usize) -> Expr {
        let depth = depth.min(self.depth_budget(ty));
        if depth == 0 { return self.atom(ty); }
        let k = self.tape.below(12);
        match k {
            0 | 1 | 2 => self.atom(ty),
            3 | 4 | 5 => {
                // arithmetic
                let ops: Vec<&str> = ["+", "-", "*", "/", "%"].into_iter().filter(|o| self.avail.bin.contains(&(o.to_string(), ty))).collect();
                if ops.is_empty() { return self.atom(ty); }
                let op = *self.tape.pick(&ops);
                let a = self.expr(ty, depth - 1);
                let b = if op == "/" || op == "%" { self.nonzero_lit(ty) } else { self.expr(ty, depth - 1) };
                Expr::Bin(op.into(), Box::new(a), Box::new(b))
            }
            6 => {
                // unary
                let ops: Vec<&str> = ["-", "~", "!", "sin", "cos", "sqrt"].into_iter().filter(|o| self.avail.un.contains(&(o.to_string(), ty))).collect();
                if ops.is_empty() { return self.atom(ty); }
                let op = *self.tape.pick(&ops);
                let a = self.expr(ty, depth - 1);
                // sqrt of negatives gives NaN: keep the argument non-negative by construction
                let a = if op == "sqrt" { Expr::Bin("*".into(), Box::new(a.clone()), Box::new(a)) } else { a };
                if op == "sqrt" && !self.avail.bin.contains(&("*".to_string(), Ty::Float)) { return self.atom(ty); }
                Expr::Un(op.into(), Box::new(a))
            }
            7 => {
                // cast from the other type
                let names: &[&str] = if ty == Ty::Int { &["_S", "$", "int"] } else { &["_f", "%", "float"] };
                let op = *self.tape.pick(names);
                let a = self.expr(ty.other(), depth - 1);
                Expr::Un(op.into(), Box::new(a))
            }
            8 => {
                if ty != Ty::Int { return self.atom(ty); }
                // comparison or int-only binop in value position
                let mut ops: Vec<(String, Ty)> = vec![];
                for (o, t) in &self.avail.bin { if is_compare(o) || (is_int_only_binop(o) && o != "||" && o != "&&") { ops.push((o.clone(), *t)); } }
                if ops.is_empty() { return self.atom(ty); }
                let (op, t) = self.tape.pick(&ops).clone();
                let a = self.expr(t, depth - 1);
                let b = self.expr(t, depth - 1);
                Expr::Bin(op, Box::new(a), Box::new(b))
            }
            9 => {
                if !self.avail.jmp { return self.atom(ty); }
                let mut c = self.cond(depth - 1);
                if !self.cfg.const_ternary_cond && !contains_var(&c) {
                    let vars = self.readable(Some(Ty::Int));
                    if vars.is_empty() || !self.avail.cond.contains(&("!=".to_string(), Ty::Int)) { return self.atom(ty); }
                    let v = self.tape.pick(&vars).clone();
                    c = Expr::Bin("!=".into(), Box::new(Expr::Var(VarUse::plain(v))), Box::new(Expr::LitI(0)));
                }
                let a = self.expr(ty, depth - 1);
                let b = self.expr(ty, depth - 1);
                Expr::Ternary(Box::new(c), Box::new(a), Box::new(b))
            }
            10 => {
                if !self.cfg.diff { return self.atom(ty); }
                if self.in_diff_switch && !self.cfg.nested_diff_switch { return self.atom(ty); }
                self.diff_switch(ty, depth - 1)
            }
            _ => self.atom(ty),
        }
    }

    fn diff_switch(&mut self, ty: Ty, depth: usize) -> Expr {
        // always four positions (difficulties 0..3), first explicit, holes elsewhere
        let mut cases = vec![];
        let was = self.in_diff_switch;
        self.in_diff_switch = true;
        for i in 0..4 {
            if i == 0 || self.tape.bool() {
                let e = if self.cfg.exclude_reg_in_diff_switch { let e = self.expr(ty, depth.min(1)); if contains_reg(&e) { self.lit(ty) } else { e } } else { self.expr(ty, depth.min(1)) };
                cases.push(Some(e));
            } else { cases.push(None); }
        }
        self.in_diff_switch = was;
        Expr::DiffSwitch(cases)
    }

    /// An int-typed expression that the language can use as a jump condition.
    pub fn cond(&mut self, depth: usize) -> Expr {
        let k = self.tape.below(8);
        let cmp: Vec<(String, Ty)> = self.avail.cond.iter().cloned().collect();
        if cmp.is_empty() { return Expr::LitI(1); }
        match k {
            0..=3 => {
                let (op, t) = self.tape.pick(&cmp).clone();
                let d = depth.min(2);
                let a = self.expr(t, d);
                let b = self.expr(t, d);
                Expr::Bin(op, Box::new(a), Box::new(b))
            }
            4 if depth > 0 => { let a = self.cond(depth - 1); let b = self.cond(depth - 1); Expr::Bin((*self.tape.pick(&["&&", "||"])).into(), Box::new(a), Box::new(b)) }
            5 if depth > 0 => { let a = self.cond(depth - 1); Expr::Un("!".into(), Box::new(a)) }
            6 if self.avail.cond.contains(&("!=".to_string(), Ty::Int)) => self.expr(Ty::Int, depth.min(1)),
            _ => {
                let (op, t) = self.tape.pick(&cmp).clone();
                let a = self.atom(t);
                let b = self.atom(t);
                Expr::Bin(op, Box::new(a), Box::new(b))
            }
        }
    }

    fn fresh_label(&mut self) -> String { self.next_label += 1; format!("lbl{}", self.next_label) }

    fn call(&mut self) -> Stmt {
        let ops: Vec<u16> = self.spec.sigs.keys().copied().filter(|o| *o >= OP_CALL_BASE).collect();
        if ops.is_empty() { return Stmt::Call { opcode: OP_SENTINEL, name: None, args: vec![], pseudos: vec![] }; }
        let opcode = *self.tape.pick(&ops);
        let sig = self.spec.sigs[&opcode].clone();
        let d = self.cfg.expr_depth;
        let args = sig.chars().map(|c| { let dd = self.tape.below(d + 1); self.expr(if c == 'f' { Ty::Float } else { Ty::Int }, dd) }).collect();
        let name = if self.tape.bool() { self.spec.ins_names.get(&opcode).cloned() } else { None };
        Stmt::Call { opcode, name, args, pseudos: vec![] }
    }

    fn assign(&mut self) -> Option<Stmt> {
        let ty = if self.tape.bool() { Ty::Float } else { Ty::Int };
        let targets = self.writable(ty);
        if targets.is_empty() { return None; }
        let var = self.tape.pick(&targets).clone();
        let var = self.respell(var);
        let ops: Vec<String> = self.avail.assign.iter().filter(|(_, t)| *t == ty).map(|(o, _)| o.clone()).collect();
        if ops.is_empty() { return None; }
        let op = if self.tape.chance(1, 3) { self.tape.pick(&ops).clone() } else { "=".to_string() };
        if !ops.contains(&op) { return None; }
        let d = self.tape.below(self.cfg.expr_depth + 1);
        let rhs = if op == "/=" || op == "%=" { self.nonzero_lit(ty) } else { self.expr(ty, d) };
        let sigil = if self.tape.chance(1, 6) { Some(ty) } else { None };
        Some(Stmt::Assign { var: VarUse { var, sigil }, op, rhs })
    }

    fn decl(&mut self) -> Option<Stmt> {
        let ty = if self.tape.bool() { Ty::Float } else { Ty::Int };
        if self.live_locals[tyi(ty)] >= self.max_locals[tyi(ty)] { return None; }
        self.next_local += 1;
        let name = format!("v{}", self.next_local);
        let d = self.tape.below(self.cfg.expr_depth + 1);
        let init = self.expr(ty, d);
        self.live_locals[tyi(ty)] += 1;
        self.scopes.last_mut().unwrap().push((name.clone(), ty));
        Some(Stmt::Decl { ty, vars: vec![(name, Some(init))] })
    }

    fn enter_scope(&mut self) { self.scopes.push(vec![]); self.const_marks.push(self.consts.len()); }
    fn exit_scope(&mut self) { for (_, t) in self.scopes.pop().unwrap() { self.live_locals[tyi(t)] -= 1; } let m = self.const_marks.pop().unwrap(); self.consts.truncate(m); }

    fn block(&mut self, depth: usize) -> Vec<SNode> {
        self.enter_scope();
        let n = 1 + self.tape.below(4);
        let b = self.stmts(n, depth);
        self.exit_scope();
        b
    }

    /// Take a loop variable: a dedicated LoopVar register, or (sometimes) a fresh int local.
    fn take_loopvar(&mut self) -> Option<VarRef> {
        let id = self.free_loopvars.pop()?;
        let r = self.spec.reg(id).unwrap().clone();
        let v = self.reg_ref_spelled(&r);
        self.reserved.push(v.clone());
        Some(v)
    }
    fn release_loopvar(&mut self, v: &VarRef) {
        if let Some(id) = v.reg_id() { self.free_loopvars.push(id); }
        self.reserved.retain(|r| !r.same_storage(v));
    }

    fn small_count(&mut self) -> Expr {
        if self.cfg.dynamic_counts && self.tape.chance(1, 3) {
            let ro: Vec<RegSpec> = self.spec.regs.iter().filter(|r| r.class == RegClass::SmallRo).cloned().collect();
            if !ro.is_empty() { let r = self.tape.pick(&ro).clone(); let v = self.reg_ref_spelled(&r); return Expr::Var(VarUse::plain(v)); }
        }
        Expr::LitI(self.tape.below(4) as i32)
    }

    fn structured_stmt(&mut self, depth: usize) -> Option<Vec<SNode>> {
        if depth == 0 || !self.avail.jmp { return None; }
        let k = self.tape.below(9);
        let has_int_ne = self.avail.cond.contains(&("!=".to_string(), Ty::Int));
        match k {
            0 | 1 => {
                // if / else if / else
                let narms = 1 + self.tape.below(3);
                let mut arms = vec![];
                for _ in 0..narms { let c = self.cond(1); let unless = self.tape.chance(1, 5); let b = self.block(depth - 1); arms.push((unless, c, b)); }
                let els = if self.tape.bool() { Some(self.block(depth - 1)) } else { None };
                Some(vec![Stmt::If { arms, els }.into()])
            }
            2 => {
                // times, anonymous counter
                if self.avail.count_jmp.is_none() || !has_int_ne { return None; }
                // the anonymous counter needs an int scratch register
                if self.live_locals[0] >= self.max_locals[0] { return None; }
                let count = self.small_count();
                self.live_locals[0] += 1;
                self.loop_depth += 1;
                let body = self.block(depth - 1);
                self.loop_depth -= 1;
                self.live_locals[0] -= 1;
                Some(vec![Stmt::Times { clobber: None, count, body }.into()])
            }
            3 => {
                // times with a clobber
                if self.avail.count_jmp.is_none() || !has_int_ne { return None; }
                let v = self.take_loopvar()?;
                let count = self.small_count();
                self.loop_depth += 1;
                let body = self.block(depth - 1);
                self.loop_depth -= 1;
                self.release_loopvar(&v);
                Some(vec![Stmt::Times { clobber: Some(VarUse::plain(v)), count, body }.into()])
            }
            4 | 5 => {
                // V = k; while (--V) {..}   /  do {..} while (--V)
                let flavor = self.avail.count_jmp.clone()?;
                let v = self.take_loopvar()?;
                let k = 1 + self.tape.below(3) as i32;
                self.loop_depth += 1;
                let body = self.block(depth - 1);
                self.loop_depth -= 1;
                self.release_loopvar(&v);
                let cond = if flavor == ">" { Expr::Bin(">".into(), Box::new(Expr::PreDec(VarUse::plain(v.clone()))), Box::new(Expr::LitI(0))) } else { Expr::PreDec(VarUse::plain(v.clone())) };
                let init: SNode = Stmt::Assign { var: VarUse::plain(v), op: "=".into(), rhs: Expr::LitI(k) }.into();
                let lp: SNode = if self.tape.bool() { Stmt::While { cond, body }.into() } else { Stmt::DoWhile { cond, body }.into() };
                Some(vec![init, lp])
            }
            6 => {
                // V = 0; while (V < k [&& cond]) { body; V += 1; }
                if !self.avail.cond.contains(&("<".to_string(), Ty::Int)) || !self.avail.assign.contains(&("+=".to_string(), Ty::Int)) { return None; }
                let v = self.take_loopvar()?;
                let k = self.tape.below(4) as i32;
                self.loop_depth += 1;
                let mut body = self.block(depth - 1);
                self.loop_depth -= 1;
                self.release_loopvar(&v);
                // the increment must not be skipped by a `break`-free path: it is the last statement of the body
                body.push(Stmt::Assign { var: VarUse::plain(v.clone()), op: "+=".into(), rhs: Expr::LitI(1) }.into());
                let mut cond = Expr::Bin("<".into(), Box::new(Expr::Var(VarUse::plain(v.clone()))), Box::new(Expr::LitI(k)));
                if self.tape.chance(1, 4) { let c2 = self.cond(0); cond = Expr::Bin("&&".into(), Box::new(cond), Box::new(c2)); }
                let init: SNode = Stmt::Assign { var: VarUse::plain(v), op: "=".into(), rhs: Expr::LitI(0) }.into();
                let dw = self.tape.chance(1, 4);
                let lp: SNode = if dw { Stmt::DoWhile { cond, body }.into() } else { Stmt::While { cond, body }.into() };
                Some(vec![init, lp])
            }
            7 => {
                // V = k; loop { pre; if (V == 0) { break; } V -= 1; post }
                if !self.avail.cond.contains(&("==".to_string(), Ty::Int)) || !self.avail.assign.contains(&("-=".to_string(), Ty::Int)) { return None; }
                let v = self.take_loopvar()?;
                let k = self.tape.below(3) as i32;
                self.loop_depth += 1;
                self.enter_scope();
                let n1 = self.tape.below(3);
                let mut body = self.stmts(n1, depth - 1);
                body.push(Stmt::If { arms: vec![(false, Expr::Bin("==".into(), Box::new(Expr::Var(VarUse::plain(v.clone()))), Box::new(Expr::LitI(0))), vec![Stmt::Break.into()])], els: None }.into());
                body.push(Stmt::Assign { var: VarUse::plain(v.clone()), op: "-=".into(), rhs: Expr::LitI(1) }.into());
                let n2 = self.tape.below(3);
                body.extend(self.stmts(n2, depth - 1));
                self.exit_scope();
                self.loop_depth -= 1;
                self.release_loopvar(&v);
                let init: SNode = Stmt::Assign { var: VarUse::plain(v), op: "=".into(), rhs: Expr::LitI(k) }.into();
                Some(vec![init, Stmt::Loop { body }.into()])
            }
            _ => Some(vec![Stmt::Block(self.block(depth - 1)).into()]),
        }
    }

    fn raw_jump_stmt(&mut self, depth: usize) -> Option<Vec<SNode>> {
        if !self.avail.jmp { return None; }
        let k = self.tape.below(4);
        match k {
            0 => {
                // forward unconditional goto over a few statements
                let l = self.fresh_label();
                let n = self.tape.below(3);
                let time = self.jump_time(self.tcur);
                let mut out: Vec<SNode> = vec![Stmt::Goto { label: l.clone(), time }.into()];
                out.extend(self.flat_stmts(n, depth));
                out.push(Stmt::Label(l).into());
                Some(out)
            }
            1 | 2 => {
                // forward conditional goto
                let l = self.fresh_label();
                let cond = self.cond(1);
                let unless = self.tape.chance(1, 4);
                let n = self.tape.below(3);
                let time = self.jump_time(self.tcur);
                let mut out: Vec<SNode> = vec![Stmt::CondGoto { unless, cond, label: l.clone(), time }.into()];
                out.extend(self.flat_stmts(n, depth));
                out.push(Stmt::Label(l).into());
                Some(out)
            }
            _ => {
                // counted backward loop:  V = k; lbl: body; if (--V) goto lbl;
                let flavor = self.avail.count_jmp.clone()?;
                let v = self.take_loopvar()?;
                let l = self.fresh_label();
                let k = 1 + self.tape.below(3) as i32;
                let n = self.tape.below(3);
                let t_label = self.tcur;
                let mut out: Vec<SNode> = vec![Stmt::Assign { var: VarUse::plain(v.clone()), op: "=".into(), rhs: Expr::LitI(k) }.into(), Stmt::Label(l.clone()).into()];
                out.extend(self.flat_stmts(n, depth));
                let cond = if flavor == ">" { Expr::Bin(">".into(), Box::new(Expr::PreDec(VarUse::plain(v.clone()))), Box::new(Expr::LitI(0))) } else { Expr::PreDec(VarUse::plain(v.clone())) };
                if self.tape.chance(1, 3) {
                    // the exit spelled with `unless`:  unless (--V) goto end [@ T]; goto lbl; end:
                    let end = self.fresh_label();
                    let time = self.jump_time(self.tcur);
                    out.push(Stmt::CondGoto { unless: true, cond, label: end.clone(), time }.into());
                    out.push(Stmt::Goto { label: l, time: None }.into());
                    out.push(Stmt::Label(end).into());
                } else {
                    let time = self.jump_time(t_label);
                    out.push(Stmt::CondGoto { unless: false, cond, label: l, time }.into());
                }
                self.release_loopvar(&v);
                Some(out)
            }
        }
    }

    /// An explicit jump time that is never later than the time in effect at the target (`limit`): the clock is then never
    /// ahead of the code it runs.  (A clock that is ahead is reset by the jumps the compiler generates inside later
    /// statements - each carries its own statement's time - which the statement-level reference interpreter does not model.)
    fn jump_time(&mut self, limit: i32) -> Option<i32> {
        if !self.cfg.explicit_jump_times || !self.tape.chance(1, 3) { return None; }
        Some(match self.tape.below(4) { 0 => limit, 1 => (limit - 1).max(0), 2 => (limit - 3).max(0), _ => 0 }.min(limit))
    }

    /// statements that do not declare locals (safe to jump over)
    fn flat_stmts(&mut self, n: usize, _depth: usize) -> Vec<SNode> {
        let mut out = vec![];
        for _ in 0..n {
            if self.budget == 0 { break; }
            self.budget -= 1;
            if self.cfg.assigns && self.tape.bool() { if let Some(s) = self.assign() { out.push(self.with_diff(s)); continue; } }
            let c = self.call();
            out.push(self.with_diff(c));
        }
        out
    }

    fn with_diff(&mut self, s: Stmt) -> SNode {
        if self.cfg.diff && self.tape.chance(1, 6) {
            // known finding: a register mentioned only in a difficulty-switch case that the statement's label excludes
            if !self.cfg.const_ternary_cond && stmt_has_reg_in_diff_switch(&s) { return s.into(); }
            let labels = ["0", "1", "01", "23", "012", "3", "*", "13", "*-0", "02"];
            SNode { diff: Some((*self.tape.pick(&labels)).to_string()), kind: s }
        } else { s.into() }
    }

    pub fn stmts(&mut self, n: usize, depth: usize) -> Vec<SNode> {
        let mut out: Vec<SNode> = vec![];
        for _ in 0..n {
            if self.budget == 0 { break; }
            self.budget -= 1;
            let k = self.tape.below(12);
            match k {
                0 | 1 | 2 => { let c = self.call(); out.push(self.with_diff(c)); }
                3 | 4 | 5 => {
                    if self.cfg.assigns { if let Some(s) = self.assign() { out.push(self.with_diff(s)); continue; } }
                    let c = self.call(); out.push(self.with_diff(c));
                }
                6 | 11 if k == 6 || self.cfg.more_locals => {
                    if self.cfg.locals { if let Some(s) = self.decl() { out.push(s.into()); continue; } }
                    let c = self.call(); out.push(c.into());
                }
                7 | 8 => {
                    if self.cfg.structured { if let Some(mut ss) = self.structured_stmt(depth) {
                        if self.cfg.label_structured && self.cfg.diff && self.tape.chance(1, 8) {
                            let excluded = self.cfg.exclude_label_on_cond_region && matches!(ss.last().map(|x| &x.kind), Some(Stmt::While { .. }) | Some(Stmt::If { .. }));
                            if let (false, Some(last)) = (excluded, ss.last_mut()) {
                                // nested labels inside a labelled structured statement have no agreed meaning (inner label replaces the outer mask
                                // in the semantics pass, while skipping the outer statement skips everything): keep the body label-free
                                strip_labels(last); last.diff = Some((*self.tape.pick(&["0", "12", "*", "3", "01"])).to_string()); }
                        }
                        out.extend(ss); continue;
                    } }
                    let c = self.call(); out.push(c.into());
                }
                9 => {
                    if self.cfg.raw_jumps { if let Some(ss) = self.raw_jump_stmt(depth) { out.extend(ss); continue; } }
                    let c = self.call(); out.push(c.into());
                }
                10 => {
                    if self.cfg.time_labels {
                        if self.tape.chance(1, 3) {
                            // absolute label (possibly decreasing / negative): only between two calls
                            let c1 = self.call(); let c2 = self.call();
                            let t = if self.cfg.time_decrease { *self.tape.pick(&[0, 5, 10, -1, -10, 30, 100, 7]) } else { self.tcur.saturating_add(*self.tape.pick(&[0, 1, 3, 10, 50])) };
                            self.tcur = t;
                            out.push(c1.into()); out.push(Stmt::TimeAbs(t).into()); out.push(c2.into());
                        } else {
                            let d = *self.tape.pick(&[0, 1, 2, 5, 10, 30]);
                            self.tcur = self.tcur.saturating_add(d);
                            out.push(Stmt::TimeRel(Expr::LitI(d)).into());
                        }
                        continue;
                    }
                    let c = self.call(); out.push(c.into());
                }
                _ if self.cfg.const_items && self.tape.chance(1, 3) => {
                    let ty = if self.tape.bool() { Ty::Float } else { Ty::Int };
                    let name = format!("KC{}", self.next_const); self.next_const += 1;
                    let e = match ty { Ty::Int => Expr::Bin("+".into(), Box::new(Expr::LitI(*self.tape.pick(INT_LITS))), Box::new(Expr::LitI(1))), _ => Expr::Bin("*".into(), Box::new(Expr::LitF(*self.tape.pick(FLOAT_LITS))), Box::new(Expr::LitF(2.0))) };
                    self.consts.push((name.clone(), ty));
                    out.push(Stmt::ConstDecl { ty, vars: vec![(name, e)] }.into());
                }
                _ => {
                    if self.loop_depth > 0 && self.cfg.structured && self.avail.jmp && self.tape.chance(1, 2) {
                        let c = self.cond(1);
                        // three spellings: `if (c) { break; }`, the conditional-jump statement `if (c) break;` / `unless (c) break;`,
                        // and an if/else whose first arm ends in a bare `break;`
                        match self.tape.below(4) {
                            0 | 1 => out.push(Stmt::If { arms: vec![(false, c, vec![Stmt::Break.into()])], els: None }.into()),
                            2 => out.push(Stmt::CondGoto { unless: self.tape.chance(1, 3), cond: c, label: COND_BREAK.into(), time: None }.into()),
                            _ => {
                                let mut arm = vec![]; if self.tape.bool() { let k = self.call(); arm.push(k.into()); } arm.push(Stmt::Break.into());
                                let els = if self.tape.bool() { let k = self.call(); Some(vec![k.into()]) } else { None };
                                out.push(Stmt::If { arms: vec![(self.tape.chance(1, 4), c, arm)], els }.into());
                            }
                        }
                        continue;
                    }
                    if self.cfg.interrupts && self.tape.chance(1, 2) { out.push(Stmt::Interrupt(Expr::LitI(self.tape.below(4) as i32)).into()); continue; }
                    let c = self.call(); out.push(c.into());
                }
            }
        }
        out
    }

    pub fn body(&mut self) -> Vec<SNode> {
        let n = 1 + self.tape.below(self.cfg.max_stmts.max(1));
        let depth = self.cfg.max_depth;
        let mut b = self.stmts(n, depth);
        if self.cfg.sentinel { b.push(Stmt::Call { opcode: OP_SENTINEL, name: Some("sentinel".into()), args: vec![], pseudos: vec![] }.into()); }
        b
    }
}

pub fn strip_labels(s: &mut SNode) {
    fn strip_body(b: &mut Vec<SNode>) { for x in b.iter_mut() { x.diff = None; strip_labels(x); } }
    match &mut s.kind {
        Stmt::If { arms, els } => { for (_, _, b) in arms.iter_mut() { strip_body(b); } if let Some(e) = els { strip_body(e); } }
        Stmt::While { body, .. } | Stmt::DoWhile { body, .. } | Stmt::Times { body, .. } | Stmt::Loop { body } | Stmt::Block(body) => strip_body(body),
        _ => {}
    }
}

pub fn contains_predec(e: &Expr) -> bool {
    match e { Expr::PreDec(_) => true, Expr::Bin(_, a, b) => contains_predec(a) || contains_predec(b), Expr::Un(_, a) => contains_predec(a), _ => false }
}

pub fn contains_var(e: &Expr) -> bool {
    let mut found = false;
    e.visit_vars(&mut |_| found = true);
    found
}

pub fn contains_reg(e: &Expr) -> bool {
    let mut found = false;
    e.visit_vars(&mut |v| if v.var.reg_id().is_some() { found = true; });
    found
}

/// Initial register valuations: boundary-biased ints, finite floats of modest magnitude.
/// Eight valuations for the price of one tape cell.
pub fn gen_valuations(tape: &mut Tape, spec: &LangSpec, n: usize) -> Vec<Vec<(i32, crate::model::ops::Val)>> {
    let data = tape.fork(n * (spec.regs.len() * 2 + 4));
    let mut sub = Tape::new(&data);
    (0..n).map(|_| gen_valuation(&mut sub, spec)).collect()
}

pub fn gen_valuation(tape: &mut Tape, spec: &LangSpec) -> Vec<(i32, crate::model::ops::Val)> {
    use crate::model::ops::Val;
    let ints: &[i32] = &[0, 1, -1, 2, 3, 7, -7, 100, i32::MAX, i32::MIN, 65536, -65536, 31, 32];
    let floats: &[f32] = &[0.0, 1.0, -1.0, 0.5, 1.5, -2.25, 3.75, 10.0, -0.125, 100.5, 0.3, 1.7];
    let mut out = vec![];
    for r in &spec.regs {
        let v = match (r.class.clone(), r.ty) {
            (RegClass::SmallRo, _) => Val::I(tape.below(4) as i32),
            (RegClass::LoopVar, _) => Val::I(*tape.pick(ints)),
            (_, Some(Ty::Float)) => Val::F(*tape.pick(floats)),
            (_, _) => { if tape.chance(1, 6) { Val::I(tape.i32_any()) } else { Val::I(*tape.pick(ints)) } }
        };
        out.push((r.id, v));
    }
    out
}
