//! G-prog: harness-side program tree for the truth script language, its printer, and the
//! reference typer (M-typer).  Independent of truth's AST.
use serde_json::{json, Value};

#[derive(Clone, Copy, PartialEq, Eq, Debug, PartialOrd, Ord, Hash)]
pub enum Ty { Int, Float, Str }

impl Ty {
    pub fn kw(self) -> &'static str { match self { Ty::Int => "int", Ty::Float => "float", Ty::Str => "string" } }
    pub fn sigil(self) -> &'static str { match self { Ty::Int => "$", Ty::Float => "%", Ty::Str => "" } }
    pub fn other(self) -> Ty { match self { Ty::Int => Ty::Float, Ty::Float => Ty::Int, Ty::Str => Ty::Str } }
    pub fn from_kw(s: &str) -> Ty { match s { "int" => Ty::Int, "float" => Ty::Float, _ => Ty::Str } }
}

#[derive(Clone, Debug, PartialEq)]
pub enum VarRef {
    /// A register.  `ty` is its declared (inherent) type, None = untyped.  `alias`: print this name instead of `REG[id]`.
    Reg { id: i32, ty: Option<Ty>, alias: Option<String> },
    Local { name: String, ty: Ty },
}

impl VarRef {
    pub fn inherent_ty(&self) -> Option<Ty> { match self { VarRef::Reg { ty, .. } => *ty, VarRef::Local { ty, .. } => Some(*ty) } }
    pub fn reg_id(&self) -> Option<i32> { match self { VarRef::Reg { id, .. } => Some(*id), _ => None } }
    pub fn same_storage(&self, other: &VarRef) -> bool {
        match (self, other) {
            (VarRef::Reg { id: a, .. }, VarRef::Reg { id: b, .. }) => a == b,
            (VarRef::Local { name: a, .. }, VarRef::Local { name: b, .. }) => a == b,
            _ => false,
        }
    }
}

#[derive(Clone, Debug, PartialEq)]
pub struct VarUse { pub var: VarRef, pub sigil: Option<Ty> }

impl VarUse {
    pub fn plain(var: VarRef) -> VarUse { VarUse { var, sigil: None } }
    pub fn read_ty(&self) -> Option<Ty> { self.sigil.or(self.var.inherent_ty()) }
    pub fn print(&self) -> String {
        let s = self.sigil.map(|t| t.sigil()).unwrap_or("");
        match &self.var {
            VarRef::Reg { id, alias: None, .. } => format!("{}REG[{}]", s, id),
            VarRef::Reg { alias: Some(a), .. } => format!("{}{}", s, a),
            VarRef::Local { name, .. } => format!("{}{}", s, name),
        }
    }
}

#[derive(Clone, Debug, PartialEq)]
pub enum Expr {
    LitI(i32),
    LitF(f32),
    LitS(String),
    Var(VarUse),
    Bin(String, Box<Expr>, Box<Expr>),
    /// "-", "!", "~", "sin", "cos", "tan", "asin", "acos", "atan", "sqrt", "_S", "_f", "$", "%", "int", "float"
    Un(String, Box<Expr>),
    Ternary(Box<Expr>, Box<Expr>, Box<Expr>),
    DiffSwitch(Vec<Option<Expr>>),
    /// `--x` (only meaningful as a condition)
    PreDec(VarUse),
    /// offsetof(label) / timeof(label)
    LabelProp(String, String),
    /// reference to a const by name
    Const(String, Ty),
}

pub fn fmt_f32(x: f32) -> String {
    // a spelling the truth lexer accepts (digits '.' digits, no exponent) that parses back to exactly x
    debug_assert!(x.is_finite());
    let a = x.abs();
    let mut s = format!("{:?}", a);
    if s.contains('e') || !s.contains('.') {
        // exact decimal expansion, trailing zeros trimmed
        s = format!("{:.160}", a);
        while s.ends_with('0') && !s.ends_with(".0") { s.pop(); }
    }
    debug_assert!(s.parse::<f32>().map(|y| y.to_bits() == a.to_bits()).unwrap_or(false), "{}", s);
    if x.is_sign_negative() { format!("-{}", s) } else { s }
}

pub fn fmt_str_lit(s: &str) -> String {
    let mut out = String::from("\"");
    for c in s.chars() {
        match c {
            '\\' => out.push_str("\\\\"),
            '"' => out.push_str("\\\""),
            '\n' => out.push_str("\\n"),
            '\r' => out.push_str("\\r"),
            '\0' => out.push_str("\\0"),
            c => out.push(c),
        }
    }
    out.push('"');
    out
}

impl Expr {
    pub fn lit_i(x: i32) -> Expr { Expr::LitI(x) }
    pub fn is_atom(&self) -> bool { matches!(self, Expr::LitI(_) | Expr::LitF(_) | Expr::LitS(_) | Expr::Var(_) | Expr::Const(..) | Expr::LabelProp(..)) }

    pub fn print(&self) -> String {
        match self {
            Expr::LitI(x) => if *x < 0 { format!("({})", x) } else { format!("{}", x) },
            Expr::LitF(x) => if x.is_sign_negative() { format!("({})", fmt_f32(*x)) } else { fmt_f32(*x) },
            Expr::LitS(s) => fmt_str_lit(s),
            Expr::Var(v) => v.print(),
            Expr::Bin(op, a, b) => format!("({} {} {})", a.print(), op, b.print()),
            Expr::Un(op, a) => match op.as_str() {
                "-" | "!" | "~" => format!("{}({})", op, a.print()),
                _ => format!("{}({})", op, a.print()),
            },
            Expr::Ternary(c, a, b) => format!("(({}) ? ({}) : ({}))", c.print(), a.print(), b.print()),
            Expr::DiffSwitch(cases) => {
                let parts: Vec<String> = cases.iter().map(|c| match c { Some(e) => e.print_nocolon(), None => String::new() }).collect();
                format!("({})", parts.join(":"))
            }
            Expr::PreDec(v) => format!("--{}", v.print()),
            Expr::LabelProp(k, l) => format!("{}({})", k, l),
            Expr::Const(n, _) => n.clone(),
        }
    }
    /// print for a position that cannot contain a top-level colon (diff switch case)
    fn print_nocolon(&self) -> String {
        match self { Expr::Ternary(..) | Expr::DiffSwitch(..) => format!("({})", self.print()), _ => self.print() }
    }
    /// print as a top-level argument / rhs (strips one layer of redundant parens)
    pub fn print_top(&self) -> String {
        let s = self.print();
        match self {
            Expr::Bin(..) | Expr::Ternary(..) | Expr::DiffSwitch(..) => s[1..s.len() - 1].to_string(),
            Expr::LitI(x) if *x < 0 => s[1..s.len() - 1].to_string(),
            Expr::LitF(x) if x.is_sign_negative() => s[1..s.len() - 1].to_string(),
            _ => s,
        }
    }

    pub fn visit_vars<'a>(&'a self, f: &mut dyn FnMut(&'a VarUse)) {
        match self {
            Expr::Var(v) | Expr::PreDec(v) => f(v),
            Expr::Bin(_, a, b) => { a.visit_vars(f); b.visit_vars(f); }
            Expr::Un(_, a) => a.visit_vars(f),
            Expr::Ternary(c, a, b) => { c.visit_vars(f); a.visit_vars(f); b.visit_vars(f); }
            Expr::DiffSwitch(cs) => for c in cs.iter().flatten() { c.visit_vars(f); },
            _ => {}
        }
    }
    pub fn uses_storage(&self, var: &VarRef) -> bool {
        let mut found = false;
        self.visit_vars(&mut |v| if v.var.same_storage(var) { found = true; });
        found
    }
    pub fn depth(&self) -> usize {
        match self {
            Expr::Bin(_, a, b) => 1 + a.depth().max(b.depth()),
            Expr::Un(_, a) => 1 + a.depth(),
            Expr::Ternary(c, a, b) => 1 + c.depth().max(a.depth()).max(b.depth()),
            Expr::DiffSwitch(cs) => 1 + cs.iter().flatten().map(|c| c.depth()).max().unwrap_or(0),
            _ => 0,
        }
    }
    pub fn has_diff_switch(&self) -> bool {
        match self {
            Expr::DiffSwitch(_) => true,
            Expr::Bin(_, a, b) => a.has_diff_switch() || b.has_diff_switch(),
            Expr::Un(_, a) => a.has_diff_switch(),
            Expr::Ternary(c, a, b) => c.has_diff_switch() || a.has_diff_switch() || b.has_diff_switch(),
            _ => false,
        }
    }
}

// =============================================================================
// M-typer for expressions: the documented typing rules.

#[derive(Debug, Clone, PartialEq)]
pub struct TypeErr(pub String);

pub fn is_arith(op: &str) -> bool { matches!(op, "+" | "-" | "*" | "/" | "%") }
pub fn is_compare(op: &str) -> bool { matches!(op, "==" | "!=" | "<" | "<=" | ">" | ">=") }
pub fn is_int_only_binop(op: &str) -> bool { matches!(op, "|" | "^" | "&" | "||" | "&&" | "<<" | ">>" | ">>>") }
pub fn is_float_math(op: &str) -> bool { matches!(op, "sin" | "cos" | "tan" | "asin" | "acos" | "atan" | "sqrt") }

impl Expr {
    /// Reference typer.  Err = ill-typed.
    pub fn ty(&self) -> Result<Ty, TypeErr> {
        match self {
            Expr::LitI(_) => Ok(Ty::Int),
            Expr::LitF(_) => Ok(Ty::Float),
            Expr::LitS(_) => Ok(Ty::Str),
            Expr::Const(_, t) => Ok(*t),
            Expr::LabelProp(..) => Ok(Ty::Int),
            Expr::Var(v) => var_use_ty(v),
            Expr::PreDec(v) => { let t = var_use_ty(v)?; if t != Ty::Int { return Err(TypeErr("--x on non-int".into())); } Ok(Ty::Int) }
            Expr::Bin(op, a, b) => {
                let (ta, tb) = (a.ty()?, b.ty()?);
                if is_arith(op) || is_compare(op) {
                    if ta == Ty::Str { return Err(TypeErr(format!("string operand of {}", op))); }
                } else if is_int_only_binop(op) {
                    if ta != Ty::Int { return Err(TypeErr(format!("non-int operand of {}", op))); }
                } else { return Err(TypeErr(format!("unknown op {}", op))); }
                if ta != tb { return Err(TypeErr(format!("operands of {} differ", op))); }
                Ok(if is_arith(op) { ta } else { Ty::Int })
            }
            Expr::Un(op, a) => {
                let ta = a.ty()?;
                match op.as_str() {
                    "-" => if ta == Ty::Str { Err(TypeErr("neg string".into())) } else { Ok(ta) },
                    "_S" | "$" | "int" => if ta == Ty::Str { Err(TypeErr("cast string".into())) } else { Ok(Ty::Int) },
                    "_f" | "%" | "float" => if ta == Ty::Str { Err(TypeErr("cast string".into())) } else { Ok(Ty::Float) },
                    "!" | "~" => if ta != Ty::Int { Err(TypeErr(format!("{} on non-int", op))) } else { Ok(Ty::Int) },
                    o if is_float_math(o) => if ta != Ty::Float { Err(TypeErr(format!("{} on non-float", op))) } else { Ok(Ty::Float) },
                    _ => Err(TypeErr(format!("unknown unop {}", op))),
                }
            }
            Expr::Ternary(c, a, b) => {
                let (ta, tb, tc) = (a.ty()?, b.ty()?, c.ty()?);
                if tc != Ty::Int { return Err(TypeErr("ternary cond not int".into())); }
                if ta != tb { return Err(TypeErr("ternary branches differ".into())); }
                Ok(ta)
            }
            Expr::DiffSwitch(cases) => {
                let mut t = None;
                for c in cases.iter().flatten() {
                    let tc = c.ty()?;
                    match t { None => t = Some(tc), Some(t0) => if t0 != tc { return Err(TypeErr("diff switch cases differ".into())); } }
                }
                t.ok_or(TypeErr("empty diff switch".into()))
            }
        }
    }
}

pub fn var_use_ty(v: &VarUse) -> Result<Ty, TypeErr> {
    match (v.var.inherent_ty(), v.sigil) {
        (Some(Ty::Str), Some(_)) => Err(TypeErr("sigil on string var".into())),
        (_, Some(s)) => Ok(s),
        (Some(t), None) => Ok(t),
        (None, None) => Err(TypeErr("untyped var needs sigil".into())),
    }
}

// =============================================================================
// Statements

/// the pseudo label of `if (c) break;` (a conditional jump whose target is the end of the enclosing loop)
pub const COND_BREAK: &str = "@break";

#[derive(Clone, Debug, PartialEq)]
pub enum Stmt {
    Call { opcode: u16, name: Option<String>, args: Vec<Expr>, pseudos: Vec<(String, Expr)> },
    Assign { var: VarUse, op: String, rhs: Expr },
    Decl { ty: Ty, vars: Vec<(String, Option<Expr>)> },
    /// arms: (is_unless, cond, body)
    If { arms: Vec<(bool, Expr, Vec<SNode>)>, els: Option<Vec<SNode>> },
    While { cond: Expr, body: Vec<SNode> },
    DoWhile { cond: Expr, body: Vec<SNode> },
    Times { clobber: Option<VarUse>, count: Expr, body: Vec<SNode> },
    Loop { body: Vec<SNode> },
    Break,
    Block(Vec<SNode>),
    TimeAbs(i32),
    TimeRel(Expr),
    Label(String),
    Goto { label: String, time: Option<i32> },
    CondGoto { unless: bool, cond: Expr, label: String, time: Option<i32> },
    Interrupt(Expr),
    ConstDecl { ty: Ty, vars: Vec<(String, Expr)> },
    /// raw text statement (used by mutators)
    Raw(String),
}

#[derive(Clone, Debug, PartialEq)]
pub struct SNode { pub diff: Option<String>, pub kind: Stmt }

impl From<Stmt> for SNode { fn from(kind: Stmt) -> SNode { SNode { diff: None, kind } } }

pub fn ins_name(opcode: u16, name: &Option<String>) -> String { match name { Some(n) => n.clone(), None => format!("ins_{}", opcode) } }

pub fn print_block(body: &[SNode], indent: usize, out: &mut String) {
    for s in body { s.print(indent, out); }
}

impl SNode {
    pub fn print(&self, indent: usize, out: &mut String) {
        let pad = "    ".repeat(indent);
        let diff = match &self.diff { Some(d) => format!("{{\"{}\"}}: ", d), None => String::new() };
        let goto_time = |t: &Option<i32>| match t { Some(t) => format!(" @ {}", t), None => String::new() };
        match &self.kind {
            Stmt::Call { opcode, name, args, pseudos } => {
                let mut parts: Vec<String> = pseudos.iter().map(|(k, v)| format!("@{}={}", k, v.print_top())).collect();
                parts.extend(args.iter().map(|a| a.print_top()));
                out.push_str(&format!("{}{}{}({});\n", pad, diff, ins_name(*opcode, name), parts.join(", ")));
            }
            Stmt::Assign { var, op, rhs } => out.push_str(&format!("{}{}{} {} {};\n", pad, diff, var.print(), op, rhs.print_top())),
            Stmt::Decl { ty, vars } => {
                let parts: Vec<String> = vars.iter().map(|(n, e)| match e { Some(e) => format!("{} = {}", n, e.print_top()), None => n.clone() }).collect();
                out.push_str(&format!("{}{}{} {};\n", pad, diff, ty.kw(), parts.join(", ")));
            }
            Stmt::ConstDecl { ty, vars } => {
                let parts: Vec<String> = vars.iter().map(|(n, e)| format!("{} = {}", n, e.print_top())).collect();
                out.push_str(&format!("{}const {} {};\n", pad, ty.kw(), parts.join(", ")));
            }
            Stmt::If { arms, els } => {
                for (i, (unless, cond, body)) in arms.iter().enumerate() {
                    let kw = if *unless { "unless" } else { "if" };
                    if i == 0 { out.push_str(&format!("{}{}{} ({}) {{\n", pad, diff, kw, cond.print_top())); }
                    else { out.push_str(&format!("{}}} else {} ({}) {{\n", pad, kw, cond.print_top())); }
                    print_block(body, indent + 1, out);
                }
                if let Some(e) = els { out.push_str(&format!("{}}} else {{\n", pad)); print_block(e, indent + 1, out); }
                out.push_str(&format!("{}}}\n", pad));
            }
            Stmt::While { cond, body } => { out.push_str(&format!("{}{}while ({}) {{\n", pad, diff, cond.print_top())); print_block(body, indent + 1, out); out.push_str(&format!("{}}}\n", pad)); }
            Stmt::DoWhile { cond, body } => { out.push_str(&format!("{}{}do {{\n", pad, diff)); print_block(body, indent + 1, out); out.push_str(&format!("{}}} while ({});\n", pad, cond.print_top())); }
            Stmt::Times { clobber, count, body } => {
                let c = match clobber { Some(v) => format!("{} = ", v.print()), None => String::new() };
                out.push_str(&format!("{}{}times({}{}) {{\n", pad, diff, c, count.print_top())); print_block(body, indent + 1, out); out.push_str(&format!("{}}}\n", pad));
            }
            Stmt::Loop { body } => { out.push_str(&format!("{}{}loop {{\n", pad, diff)); print_block(body, indent + 1, out); out.push_str(&format!("{}}}\n", pad)); }
            Stmt::Break => out.push_str(&format!("{}{}break;\n", pad, diff)),
            Stmt::Block(body) => { out.push_str(&format!("{}{}{{\n", pad, diff)); print_block(body, indent + 1, out); out.push_str(&format!("{}}}\n", pad)); }
            Stmt::TimeAbs(t) => out.push_str(&format!("{}:\n", t)),
            Stmt::TimeRel(e) => out.push_str(&format!("+{}:\n", e.print_top())),
            Stmt::Label(l) => out.push_str(&format!("{}:\n", l)),
            Stmt::Goto { label, time } => out.push_str(&format!("{}{}goto {}{};\n", pad, diff, label, goto_time(time))),
            Stmt::CondGoto { unless, cond, label, .. } if label == COND_BREAK => out.push_str(&format!("{}{}{} ({}) break;\n", pad, diff, if *unless { "unless" } else { "if" }, cond.print_top())),
            Stmt::CondGoto { unless, cond, label, time } => out.push_str(&format!("{}{}{} ({}) goto {}{};\n", pad, diff, if *unless { "unless" } else { "if" }, cond.print_top(), label, goto_time(time))),
            Stmt::Interrupt(e) => out.push_str(&format!("{}interrupt[{}]:\n", pad, e.print_top())),
            Stmt::Raw(s) => out.push_str(&format!("{}{}{}\n", pad, diff, s)),
        }
    }
}

pub fn print_body(body: &[SNode]) -> String { let mut s = String::new(); print_block(body, 1, &mut s); s }

/// Visit all statements, recursively, with nesting depth.
pub fn visit_stmts<'a>(body: &'a [SNode], depth: usize, f: &mut dyn FnMut(&'a SNode, usize)) {
    for s in body {
        f(s, depth);
        match &s.kind {
            Stmt::If { arms, els } => { for (_, _, b) in arms { visit_stmts(b, depth + 1, f); } if let Some(e) = els { visit_stmts(e, depth + 1, f); } }
            Stmt::While { body, .. } | Stmt::DoWhile { body, .. } | Stmt::Times { body, .. } | Stmt::Loop { body } | Stmt::Block(body) => visit_stmts(body, depth + 1, f),
            _ => {}
        }
    }
}

pub fn stmt_exprs<'a>(s: &'a Stmt) -> Vec<&'a Expr> {
    match s {
        Stmt::Call { args, pseudos, .. } => args.iter().chain(pseudos.iter().map(|(_, e)| e)).collect(),
        Stmt::Assign { rhs, .. } => vec![rhs],
        Stmt::Decl { vars, .. } => vars.iter().filter_map(|(_, e)| e.as_ref()).collect(),
        Stmt::ConstDecl { vars, .. } => vars.iter().map(|(_, e)| e).collect(),
        Stmt::If { arms, .. } => arms.iter().map(|(_, c, _)| c).collect(),
        Stmt::While { cond, .. } | Stmt::DoWhile { cond, .. } => vec![cond],
        Stmt::Times { count, .. } => vec![count],
        Stmt::CondGoto { cond, .. } => vec![cond],
        Stmt::TimeRel(e) | Stmt::Interrupt(e) => vec![e],
        _ => vec![],
    }
}

/// All register ids mentioned anywhere in the body, in any syntactic position.
pub fn mentioned_regs(body: &[SNode]) -> std::collections::BTreeSet<i32> {
    let mut out = std::collections::BTreeSet::new();
    visit_stmts(body, 0, &mut |s, _| {
        for e in stmt_exprs(&s.kind) { e.visit_vars(&mut |v| { if let Some(id) = v.var.reg_id() { out.insert(id); } }); }
        match &s.kind {
            Stmt::Assign { var, .. } => { if let Some(id) = var.var.reg_id() { out.insert(id); } }
            Stmt::Times { clobber: Some(v), .. } => { if let Some(id) = v.var.reg_id() { out.insert(id); } }
            _ => {}
        }
    });
    out
}

pub fn count_stmts(body: &[SNode]) -> usize { let mut n = 0; visit_stmts(body, 0, &mut |_, _| n += 1); n }
pub fn max_depth(body: &[SNode]) -> usize { let mut d = 0; visit_stmts(body, 0, &mut |_, x| d = d.max(x)); d }

pub fn json_f32(x: f32) -> Value { json!(x.to_bits()) }

/// Register ids mentioned somewhere outside every difficulty switch.
pub fn mentioned_regs_outside_diff_switch(body: &[SNode]) -> std::collections::BTreeSet<i32> {
    fn walk(e: &Expr, out: &mut std::collections::BTreeSet<i32>) {
        match e {
            Expr::Var(v) | Expr::PreDec(v) => { if let Some(id) = v.var.reg_id() { out.insert(id); } }
            Expr::Bin(_, a, b) => { walk(a, out); walk(b, out); }
            Expr::Un(_, a) => walk(a, out),
            Expr::Ternary(c, a, b) => { walk(c, out); walk(a, out); walk(b, out); }
            Expr::DiffSwitch(_) => {}
            _ => {}
        }
    }
    let mut out = std::collections::BTreeSet::new();
    visit_stmts(body, 0, &mut |s, _| {
        for e in stmt_exprs(&s.kind) { walk(e, &mut out); }
        match &s.kind {
            Stmt::Assign { var, .. } => { if let Some(id) = var.var.reg_id() { out.insert(id); } }
            Stmt::Times { clobber: Some(v), .. } => { if let Some(id) = v.var.reg_id() { out.insert(id); } }
            _ => {}
        }
    });
    out
}

pub fn expr_has_nested_diff_switch(e: &Expr, inside: bool) -> bool {
    match e {
        Expr::DiffSwitch(cs) => inside || cs.iter().flatten().any(|c| expr_has_nested_diff_switch(c, true)),
        Expr::Bin(_, a, b) => expr_has_nested_diff_switch(a, inside) || expr_has_nested_diff_switch(b, inside),
        Expr::Un(_, a) => expr_has_nested_diff_switch(a, inside),
        Expr::Ternary(c, a, b) => expr_has_nested_diff_switch(c, inside) || expr_has_nested_diff_switch(a, inside) || expr_has_nested_diff_switch(b, inside),
        _ => false,
    }
}
pub fn body_has_nested_diff_switch(body: &[SNode]) -> bool {
    let mut found = false;
    visit_stmts(body, 0, &mut |s, _| { for e in stmt_exprs(&s.kind) { if expr_has_nested_diff_switch(e, false) { found = true; } } });
    found
}

/// Register ids mentioned in code that certainly survives to lowering: outside ternaries with a constant
/// condition and outside difficulty switches of difficulty-labelled statements.
pub fn mentioned_regs_live(body: &[SNode]) -> std::collections::BTreeSet<i32> {
    fn has_var(e: &Expr) -> bool { let mut f = false; e.visit_vars(&mut |_| f = true); f }
    fn walk(e: &Expr, labelled: bool, out: &mut std::collections::BTreeSet<i32>) {
        match e {
            Expr::Var(v) | Expr::PreDec(v) => { if let Some(id) = v.var.reg_id() { out.insert(id); } }
            Expr::Bin(_, a, b) => { walk(a, labelled, out); walk(b, labelled, out); }
            Expr::Un(_, a) => walk(a, labelled, out),
            Expr::Ternary(c, a, b) => { walk(c, labelled, out); if has_var(c) { walk(a, labelled, out); walk(b, labelled, out); } }
            Expr::DiffSwitch(cs) => { if !labelled { for c in cs.iter().flatten() { walk(c, labelled, out); } } }
            _ => {}
        }
    }
    fn go(body: &[SNode], labelled: bool, out: &mut std::collections::BTreeSet<i32>) {
        for s in body {
            let l = labelled || s.diff.is_some();
            for e in stmt_exprs(&s.kind) { walk(e, l, out); }
            match &s.kind {
                Stmt::Assign { var, .. } => { if let Some(id) = var.var.reg_id() { out.insert(id); } }
                Stmt::Times { clobber: Some(v), .. } => { if let Some(id) = v.var.reg_id() { out.insert(id); } }
                _ => {}
            }
            match &s.kind {
                Stmt::If { arms, els } => { for (_, _, b) in arms { go(b, l, out); } if let Some(e) = els { go(e, l, out); } }
                Stmt::While { body, .. } | Stmt::DoWhile { body, .. } | Stmt::Times { body, .. } | Stmt::Loop { body } | Stmt::Block(body) => go(body, l, out),
                _ => {}
            }
        }
    }
    let mut out = std::collections::BTreeSet::new();
    go(body, false, &mut out);
    out
}

pub fn stmt_has_reg_in_diff_switch(s: &Stmt) -> bool {
    fn walk(e: &Expr, inside: bool) -> bool {
        match e {
            Expr::Var(v) | Expr::PreDec(v) => inside && v.var.reg_id().is_some(),
            Expr::Bin(_, a, b) => walk(a, inside) || walk(b, inside),
            Expr::Un(_, a) => walk(a, inside),
            Expr::Ternary(c, a, b) => walk(c, inside) || walk(a, inside) || walk(b, inside),
            Expr::DiffSwitch(cs) => cs.iter().flatten().any(|c| walk(c, true)),
            _ => false,
        }
    }
    stmt_exprs(s).into_iter().any(|e| walk(e, false))
}

// =============================================================================
// M-typer for statements: the documented rules (operand types per operator class, int-only conditions
// and counters, matching assignment and declaration types, call arity and parameter types).

pub fn sig_param_types(sig: &str) -> Vec<Ty> {
    // only the simple letters are used by the generated languages
    sig.chars().filter(|c| *c != '_' && *c != '-').map(|c| if c == 'f' { Ty::Float } else if matches!(c, 'z' | 'm' | 'p') { Ty::Str } else { Ty::Int }).collect()
}

fn cond_ty(e: &Expr) -> Result<(), TypeErr> {
    let t = e.ty()?;
    if t != Ty::Int { return Err(TypeErr("condition is not an int".into())); }
    Ok(())
}

pub fn check_body(body: &[SNode], sigs: &std::collections::BTreeMap<u16, String>) -> Result<(), TypeErr> {
    for s in body {
        match &s.kind {
            Stmt::Call { opcode, args, .. } => {
                let sig = sigs.get(opcode).ok_or_else(|| TypeErr(format!("no signature for {}", opcode)))?;
                let params = sig_param_types(sig);
                if params.len() != args.len() { return Err(TypeErr(format!("arity: {} args for {} params", args.len(), params.len()))); }
                for (a, p) in args.iter().zip(params.iter()) { let t = a.ty()?; if t != *p { return Err(TypeErr("argument type".into())); } }
            }
            Stmt::Assign { var, op, rhs } => {
                let tv = var_use_ty(var)?;
                let tr = rhs.ty()?;
                if op == "=" { if tv != tr { return Err(TypeErr("assignment types differ".into())); } }
                else {
                    let b = &op[..op.len() - 1];
                    if is_arith(b) { if tv == Ty::Str { return Err(TypeErr("string arithmetic".into())); } }
                    else if tv != Ty::Int { return Err(TypeErr("int-only assignment operator".into())); }
                    if tv != tr { return Err(TypeErr("assignment types differ".into())); }
                }
            }
            Stmt::Decl { ty, vars } => { for (_, e) in vars { if let Some(e) = e { if e.ty()? != *ty { return Err(TypeErr("declaration type".into())); } } } }
            Stmt::ConstDecl { ty, vars } => { for (_, e) in vars { if e.ty()? != *ty { return Err(TypeErr("const declaration type".into())); } } }
            Stmt::If { arms, els } => { for (_, c, b) in arms { cond_ty(c)?; check_body(b, sigs)?; } if let Some(e) = els { check_body(e, sigs)?; } }
            Stmt::While { cond, body } | Stmt::DoWhile { cond, body } => { cond_ty(cond)?; check_body(body, sigs)?; }
            Stmt::Times { clobber, count, body } => {
                if count.ty()? != Ty::Int { return Err(TypeErr("times count not int".into())); }
                if let Some(c) = clobber { if var_use_ty(c)? != Ty::Int { return Err(TypeErr("times clobber not int".into())); } }
                check_body(body, sigs)?;
            }
            Stmt::Loop { body } | Stmt::Block(body) => check_body(body, sigs)?,
            Stmt::CondGoto { cond, .. } => cond_ty(cond)?,
            _ => {}
        }
    }
    Ok(())
}

// =============================================================================
// Tree addressing for mutators: visit every expression node mutably, in a fixed order.

pub fn for_each_expr_mut(body: &mut [SNode], depth: usize, f: &mut dyn FnMut(&mut Expr, &ExprSite)) {
    for s in body.iter_mut() {
        let kind_name = stmt_kind_name(&s.kind);
        match &mut s.kind {
            Stmt::Call { args, .. } => for a in args.iter_mut() { walk_expr_mut(a, &ExprSite { stmt: kind_name, role: "arg", block_depth: depth, expr_depth: 0 }, f); },
            Stmt::Assign { rhs, .. } => walk_expr_mut(rhs, &ExprSite { stmt: kind_name, role: "rhs", block_depth: depth, expr_depth: 0 }, f),
            Stmt::Decl { vars, .. } => for (_, e) in vars.iter_mut() { if let Some(e) = e { walk_expr_mut(e, &ExprSite { stmt: kind_name, role: "init", block_depth: depth, expr_depth: 0 }, f); } },
            Stmt::ConstDecl { vars, .. } => for (_, e) in vars.iter_mut() { walk_expr_mut(e, &ExprSite { stmt: kind_name, role: "const", block_depth: depth, expr_depth: 0 }, f); },
            Stmt::If { arms, els } => {
                for (_, c, b) in arms.iter_mut() { walk_expr_mut(c, &ExprSite { stmt: kind_name, role: "cond", block_depth: depth, expr_depth: 0 }, f); for_each_expr_mut(b, depth + 1, f); }
                if let Some(e) = els { for_each_expr_mut(e, depth + 1, f); }
            }
            Stmt::While { cond, body } | Stmt::DoWhile { cond, body } => { walk_expr_mut(cond, &ExprSite { stmt: kind_name, role: "cond", block_depth: depth, expr_depth: 0 }, f); for_each_expr_mut(body, depth + 1, f); }
            Stmt::Times { count, body, .. } => { walk_expr_mut(count, &ExprSite { stmt: kind_name, role: "count", block_depth: depth, expr_depth: 0 }, f); for_each_expr_mut(body, depth + 1, f); }
            Stmt::Loop { body } => for_each_expr_mut(body, depth + 1, f),
            Stmt::Block(body) => for_each_expr_mut_in_free_block(body, depth + 1, f),
            Stmt::CondGoto { cond, .. } => walk_expr_mut(cond, &ExprSite { stmt: kind_name, role: "cond", block_depth: depth, expr_depth: 0 }, f),
            _ => {}
        }
    }
}

fn for_each_expr_mut_in_free_block(body: &mut [SNode], depth: usize, f: &mut dyn FnMut(&mut Expr, &ExprSite)) {
    // same walk, but the site records that it lies inside a free-standing block
    let mut g = |e: &mut Expr, site: &ExprSite| { let s2 = ExprSite { stmt: site.stmt, role: site.role, block_depth: site.block_depth | 0x100, expr_depth: site.expr_depth }; f(e, &s2) };
    for_each_expr_mut(body, depth, &mut g);
}

#[derive(Clone, Debug)]
pub struct ExprSite { pub stmt: &'static str, pub role: &'static str, pub block_depth: usize, pub expr_depth: usize }

impl ExprSite {
    pub fn in_free_block(&self) -> bool { self.block_depth & 0x100 != 0 }
    pub fn depth(&self) -> usize { self.block_depth & 0xff }
}

pub fn stmt_kind_name(s: &Stmt) -> &'static str {
    match s { Stmt::Call { .. } => "call", Stmt::Assign { .. } => "assign", Stmt::Decl { .. } => "decl", Stmt::ConstDecl { .. } => "const", Stmt::If { .. } => "if", Stmt::While { .. } => "while",
              Stmt::DoWhile { .. } => "dowhile", Stmt::Times { .. } => "times", Stmt::Loop { .. } => "loop", Stmt::Block(_) => "block", Stmt::CondGoto { .. } => "condgoto", _ => "other" }
}

fn walk_expr_mut(e: &mut Expr, site: &ExprSite, f: &mut dyn FnMut(&mut Expr, &ExprSite)) {
    f(e, site);
    let sub = ExprSite { stmt: site.stmt, role: site.role, block_depth: site.block_depth, expr_depth: site.expr_depth + 1 };
    match e {
        Expr::Bin(_, a, b) => { walk_expr_mut(a, &sub, f); walk_expr_mut(b, &sub, f); }
        Expr::Un(_, a) => walk_expr_mut(a, &sub, f),
        Expr::Ternary(c, a, b) => { walk_expr_mut(c, &sub, f); walk_expr_mut(a, &sub, f); walk_expr_mut(b, &sub, f); }
        Expr::DiffSwitch(cs) => for c in cs.iter_mut().flatten() { walk_expr_mut(c, &sub, f); },
        _ => {}
    }
}
