//! C07 — recovering loops and conditionals while decompiling preserves behaviour.
//! Oracle: AstVm of decompile(blocks = false) vs decompile(blocks = true) of the same instruction stream,
//! plus structural invariants (labels kept, explicit-time jumps kept, time labels kept).
use serde_json::{json, Value};
use truth::ast;
use crate::engine::*;
use crate::gen::{body::*, lang::*, prog::*};
use crate::model::machine::MInstr;
use crate::model::ops::Val;
use crate::tx;
use super::c02::{valuations_from_json, valuations_to_json};

pub struct C07;

fn minstr_to_json(i: &MInstr) -> Value { json!({"time": i.time, "opcode": i.opcode, "mask": i.mask, "blob": i.blob, "difficulty": i.difficulty}) }
fn minstr_from_json(v: &Value) -> MInstr {
    MInstr { time: v["time"].as_i64().unwrap() as i32, opcode: v["opcode"].as_u64().unwrap() as u16, mask: v["mask"].as_u64().unwrap() as u16,
             blob: v["blob"].as_array().unwrap().iter().map(|b| b.as_u64().unwrap() as u8).collect(), difficulty: v["difficulty"].as_u64().unwrap() as u8 }
}

#[derive(Clone)] enum K { Call(i32), Assign(i32, i32), Jmp(usize, Option<i32>), Cond(String, i32, i32, usize, Option<i32>), Count(i32, usize, Option<i32>), Interrupt(i32) }

/// instruction-level skeleton of nested if / if-else / counted loops (what a compiler would emit), to be perturbed afterwards
fn build_shaped(tape: &mut Tape, plan: &mut Vec<K>, depth: usize, counters: &mut Vec<i32>, budget: &mut usize) {
    let n = 1 + tape.below(4);
    for _ in 0..n {
        if *budget == 0 { return; }
        *budget -= 1;
        match tape.below(7) {
            0..=2 => plan.push(K::Call(100 + plan.len() as i32)),
            3 | 4 if depth > 0 => {
                let ci = plan.len();
                plan.push(K::Cond((*tape.pick(&["==", "!=", "<", ">="])).to_string(), *tape.pick(&[1000, 1001, 1010, 1030]), tape.below(3) as i32, 0, None));
                build_shaped(tape, plan, depth - 1, counters, budget);
                if tape.bool() {
                    let ji = plan.len();
                    plan.push(K::Jmp(0, None));
                    let else_start = plan.len();
                    build_shaped(tape, plan, depth - 1, counters, budget);
                    let end = plan.len();
                    if let K::Cond(_, _, _, t, _) = &mut plan[ci] { *t = else_start; }
                    if let K::Jmp(t, _) = &mut plan[ji] { *t = end; }
                } else {
                    let end = plan.len();
                    if let K::Cond(_, _, _, t, _) = &mut plan[ci] { *t = end; }
                }
            }
            5 if depth > 0 && !counters.is_empty() => {
                let c = counters.pop().unwrap();
                let start = plan.len();
                build_shaped(tape, plan, depth - 1, counters, budget);
                plan.push(K::Count(c, start, None));
            }
            6 => plan.push(K::Interrupt(tape.below(4) as i32)),
            _ => plan.push(K::Assign(*tape.pick(&[1000, 1001, 1010]), tape.below(4) as i32)),
        }
    }
}

/// a random jump graph over a fixed-size instruction encoding
fn gen_graph(tape: &mut Tape, spec: &LangSpec) -> (Vec<MInstr>, Vec<&'static str>) {
    let flavor_gt = spec.has(&Intr::CountJmp(">".into()));
    let mut feats: Vec<&'static str> = vec![];
    let mut plan: Vec<K> = vec![];
    let shaped = tape.chance(2, 3);
    if shaped {
        feats.push("shaped");
        let mut counters = if flavor_gt { vec![1023, 1022, 1021, 1020] } else { vec![1020] };
        let mut budget = 22;
        build_shaped(tape, &mut plan, 3, &mut counters, &mut budget);
        while plan.len() < 3 { plan.push(K::Call(100 + plan.len() as i32)); }
        let n = plan.len();
        // perturbations: extra forward jumps (shared targets, jumps into / out of bodies), explicit times
        let np = tape.below(3);
        for _ in 0..np {
            let at = tape.below(n);
            if matches!(plan[at], K::Call(_)) {
                let t = at + 1 + tape.below(n - at);
                plan[at] = if tape.bool() { K::Jmp(t, None) } else { K::Cond("==".into(), 1001, tape.below(3) as i32, t, None) };
                feats.push("perturbed");
            }
        }
        if tape.chance(1, 3) {
            let at = tape.below(n);
            match &mut plan[at] { K::Jmp(_, et) | K::Cond(_, _, _, _, et) | K::Count(_, _, et) => { *et = Some(-1); feats.push("explicit_time"); } _ => {} }
        }
    } else {
    let n = 3 + tape.below(23);
    let counters = [1020, 1021, 1022, 1023];
    let mut next_counter = 0;
    let mut back_regions: Vec<(usize, usize)> = vec![];
    for i in 0..n {
        let k = tape.below(12);
        let explicit_time = |tape: &mut Tape| if tape.chance(1, 5) { Some(-1) } else { None };
        let item = match k {
            0..=3 => K::Call(100 + i as i32),
            4 => K::Assign(*tape.pick(&[1000, 1001, 1010]), tape.below(4) as i32),
            5 | 6 => { let t = i + 1 + tape.below(n - i); let et = explicit_time(tape); K::Jmp(t, et) }   // forward (t may be n = end)
            7 | 8 => { let t = i + 1 + tape.below(n - i); let et = explicit_time(tape); K::Cond((*tape.pick(&["==", "!=", "<", ">="])).to_string(), *tape.pick(&[1000, 1001, 1010, 1030]), tape.below(3) as i32, t, et) }
            9 | 10 if i > 0 && next_counter < counters.len() => {
                // backward counting jump
                let t = tape.below(i + 1);
                let nested = back_regions.iter().any(|(a, b)| !(i < *a || t > *b));
                if nested && !flavor_gt { K::Call(100 + i as i32) } else {
                    back_regions.push((t, i));
                    let c = counters[next_counter]; next_counter += 1;
                    let et = explicit_time(tape);
                    K::Count(c, t, et)
                }
            }
            11 => K::Interrupt(tape.below(4) as i32),
            _ => K::Call(100 + i as i32),
        };
        plan.push(item);
    }
    }
    let n = plan.len();
    // times: non-decreasing, sometimes equal
    let mut times = vec![]; let mut t = 0;
    for _ in 0..n { if tape.chance(1, 3) { t += *tape.pick(&[1, 5, 10]); } times.push(t); }
    times.push(t); // the end-of-script label carries the last instruction's time
    // sizes -> offsets
    let jsig = spec.sigs[&OP_JMP].clone();
    let cjsig = spec.sigs[&OP_COUNTJMP].clone();
    let cond_op = |op: &str| spec.intrinsic_opcode(&Intr::CondJmp(op.to_string(), Ty::Int));
    let sizes: Vec<usize> = plan.iter().map(|k| 4 + match k {
        K::Call(_) => 4, K::Assign(..) => spec.sigs[&spec.intrinsic_opcode(&Intr::AssignOp("=".into(), Ty::Int)).unwrap()].len() * 4,
        K::Jmp(..) => jsig.len() * 4, K::Cond(op, ..) => match cond_op(op) { Some(o) => spec.sigs[&o].len() * 4, None => 4 },
        K::Count(..) => cjsig.len() * 4, K::Interrupt(_) => 4 }).collect();
    let mut offs = vec![0usize]; for s in &sizes { offs.push(offs.last().unwrap() + s); }
    let enc = |sig: &str, regs: &[i32], imms: &[i32], off: i32, time: i32| -> (Vec<u8>, u16) {
        // regs fill S slots first (as registers), then imms; o/t from off/time
        let mut blob = vec![]; let mut mask = 0u16; let mut bit = 0; let mut ri = 0; let mut ii = 0;
        for ch in sig.chars() {
            match ch {
                'o' => { blob.extend(off.to_le_bytes()); bit += 1; }
                't' => { blob.extend(time.to_le_bytes()); bit += 1; }
                '_' => blob.extend(0i32.to_le_bytes()),
                _ => { if ri < regs.len() { blob.extend(regs[ri].to_le_bytes()); mask |= 1 << bit; ri += 1; } else { blob.extend(imms.get(ii).copied().unwrap_or(0).to_le_bytes()); ii += 1; } bit += 1; }
            }
        }
        (blob, mask)
    };
    let mut out = vec![];
    for (i, k) in plan.iter().enumerate() {
        let time = times[i];
        let difficulty = if tape.chance(1, 10) { feats.push("difficulty_tagged"); *tape.pick(&[0x0Fu8, 0xF1, 0xF3, 0xFC]) } else { 0xFF };
        let tt = |target: usize, et: &Option<i32>| match et { Some(_) => times[target.min(n).saturating_sub(1)], None => times[target.min(n)] };
        let (opcode, blob, mask) = match k {
            K::Call(tag) => (200u16, tag.to_le_bytes().to_vec(), 0u16),
            K::Assign(r, v) => { let o = spec.intrinsic_opcode(&Intr::AssignOp("=".into(), Ty::Int)).unwrap(); let (b, m) = enc(&spec.sigs[&o], &[*r], &[*v], 0, 0); (o, b, m) }
            K::Jmp(t, et) => { if et.is_some() { feats.push("explicit_time"); } let (b, m) = enc(&jsig, &[], &[], offs[*t] as i32, tt(*t, et)); (OP_JMP, b, m) }
            K::Cond(op, r, v, t, et) => match cond_op(op) {
                Some(o) => { if et.is_some() { feats.push("explicit_time"); } let (b, m) = enc(&spec.sigs[&o], &[*r], &[*v], offs[*t] as i32, tt(*t, et)); (o, b, m) }
                None => (200, (900 + i as i32).to_le_bytes().to_vec(), 0),
            },
            K::Count(c, t, et) => { feats.push("backward"); if et.is_some() { feats.push("explicit_time"); } let (b, m) = enc(&cjsig, &[*c], &[], offs[*t] as i32, tt(*t, et)); (OP_COUNTJMP, b, m) }
            K::Interrupt(x) => { feats.push("interrupt"); (OP_INTERRUPT, x.to_le_bytes().to_vec(), 0) }
        };
        out.push(MInstr { time, opcode, mask, blob, difficulty });
    }
    // multi-referrer / overlapping statistics
    let mut targets: Vec<usize> = plan.iter().filter_map(|k| match k { K::Jmp(t, _) | K::Cond(_, _, _, t, _) | K::Count(_, t, _) => Some(*t), _ => None }).collect();
    targets.sort();
    if targets.windows(2).any(|w| w[0] == w[1]) { feats.push("multi_referrer"); }
    feats.sort(); feats.dedup();
    (out, feats)
}

impl Property for C07 {
    fn id(&self) -> &'static str { "C07" }
    fn rule(&self) -> &'static str {
        "instruction streams obtained (1) by lowering generated structured programs and (2) as random jump graphs of 3..25 instructions (forward unconditional/conditional jumps, backward counting jumps incl. overlapping ones, shared targets, explicit jump times, interrupt labels, difficulty-tagged instructions, time increases) x 8 register valuations; decompile with blocks=false vs blocks=true (direct and, for jumps into blocks, after desugar_blocks); non-trivial = some block was recovered and the stream is a random graph or contains an explicit-time/multi-referrer/interrupt feature"
    }
    fn tape_len(&self, tier: Tier) -> usize { tier.pick(700, 1000) }
    fn cases(&self, tier: Tier) -> u32 { tier.pick(150000, 3000000) }
    fn required_labels(&self, _tier: Tier) -> Vec<&'static str> { vec!["from_program", "graph", "recovered", "explicit_time", "multi_referrer", "interrupt", "backward", "needs_flatten"] }

    fn generate(&self, tape: &mut Tape, _tier: Tier, known: &Known) -> Value {
        let knobs = LangKnobs { pad_intrinsics: 1, rich: false, anti_scratch: false };
        let mut spec = gen_lang(tape, &knobs);
        for r in spec.regs.iter_mut() { if r.class == RegClass::Gp && r.id < 1008 { r.scratch = true; } }
        if tape.bool() {
            let mut cfg = BodyCfg::full();
            cfg.const_ternary_cond = !known.has("reg-mention-eliminated");
            cfg.diff = false;
            let body = { let mut g = BodyGen::new(tape, &spec, cfg); g.body() };
            let text = format!("{{\n{}}}\n", print_body(&body));
        // all conditional jumps single-instruction and present for the graph mode
        let vals: Vec<Vec<(i32, Val)>> = (0..8).map(|_| {
            let mut v = { let d = tape.fork(spec.regs.len() * 2 + 4); let mut sub = Tape::new(&d); gen_valuation(&mut sub, &spec) };
            for (id, x) in v.iter_mut() { if (1020..1024).contains(id) { *x = Val::I(1 + tape.below(3) as i32); } if [1000, 1001, 1010].contains(id) { *x = Val::I(tape.below(4) as i32); } }
            v }).collect();
            json!({"mode": "program", "spec": spec.to_json(), "text": text, "valuations": valuations_to_json(&vals)})
        } else {
            // graph mode wants every int comparison as a single conditional-jump instruction
            let ok = ["==", "!=", "<", ">="].iter().all(|op| spec.has(&Intr::CondJmp(op.to_string(), Ty::Int)));
            if !ok { let mut next = 300u16; for op in CMP_OPS { if !spec.has(&Intr::CondJmp(op.to_string(), Ty::Int)) { spec.sigs.insert(next, "SSot".into()); spec.intrinsics.insert(next, Intr::CondJmp(op.to_string(), Ty::Int)); next += 1; } }
                // remove the two-part int comparison so that the single form is the one recognised
                let cmp = spec.intrinsic_opcode(&Intr::Cmp(Ty::Int)); if let Some(c) = cmp { spec.intrinsics.remove(&c); spec.sigs.remove(&c); } }
            if !spec.sigs.contains_key(&200) || spec.sigs[&200] != "S" { spec.sigs.insert(200, "S".into()); }
            let (instrs, feats) = gen_graph(tape, &spec);
        // all conditional jumps single-instruction and present for the graph mode
        let vals: Vec<Vec<(i32, Val)>> = (0..8).map(|_| {
            let mut v = { let d = tape.fork(spec.regs.len() * 2 + 4); let mut sub = Tape::new(&d); gen_valuation(&mut sub, &spec) };
            for (id, x) in v.iter_mut() { if (1020..1024).contains(id) { *x = Val::I(1 + tape.below(3) as i32); } if [1000, 1001, 1010].contains(id) { *x = Val::I(tape.below(4) as i32); } }
            v }).collect();
            json!({"mode": "graph", "spec": spec.to_json(), "instrs": instrs.iter().map(minstr_to_json).collect::<Vec<_>>(), "features": feats, "valuations": valuations_to_json(&vals)})
        }
    }

    fn check(&self, case: &Value, ctx: &mut CheckCtx) -> Outcome {
        let spec = LangSpec::from_json(&case["spec"]);
        let hooks = spec.hooks();
        let vals = valuations_from_json(&case["valuations"]);
        let is_graph = case["mode"] == "graph";
        ctx.label(if is_graph { "graph" } else { "from_program" });
        let feats: Vec<String> = case["features"].as_array().map(|a| a.iter().map(|x| x.as_str().unwrap().to_string()).collect()).unwrap_or_default();
        for f in &feats { ctx.label(f.clone()); }
        // obtain the instruction stream
        let instrs: Vec<MInstr> = if is_graph { case["instrs"].as_array().unwrap().iter().map(minstr_from_json).collect() } else {
            match tx::with_truth(|truth| tx::compile_body(truth, &spec, &hooks, case["text"].as_str().unwrap(), tx::PipeOpts::default()).map(|c| tx::to_minstrs(&c.instrs)).map_err(|s| (s, tx::diags(truth)))) {
                Ok(i) => i,
                Err((s, d)) => return if tx::has_error_diag(&d) { Outcome::Discard(format!("compile-error:{:?}", s)) } else { Outcome::Fail(Failure::new("c07:err-without-diagnostic", format!("{:?}", s))) },
            }
        };
        let raws = tx::from_minstrs(&instrs);
        tx::with_truth(|truth| {
            if truth.apply_mapfile_str(&spec.mapfile_text(), truth::Game::Th10).is_err() { return Outcome::Discard("mapfile rejected".into()); }
            let stmts = match tx::raise_flat(truth, &hooks, &raws, &Default::default()) { Ok(s) => s, Err(()) => { let d = tx::diags(truth); return if tx::has_error_diag(&d) { Outcome::Discard("raise-error".into()) } else { Outcome::Fail(Failure::new("c07:raise-err-without-diagnostic", "")) }; } };
            let a = match tx::postprocess(truth, stmts.clone(), false) { Ok(b) => b, Err(()) => return Outcome::Fail(Failure::new("c07:postprocess-failed:blocks=false", tx::diags(truth))) };
            let b = match tx::postprocess(truth, stmts, true) { Ok(b) => b, Err(()) => return Outcome::Fail(Failure::new("c07:postprocess-failed:blocks=true", tx::diags(truth))) };
            let (sa, sb) = (tx::shape_of(&a), tx::shape_of(&b));
            let show = || format!("blocks=false:\n{}\nblocks=true:\n{}", tx::stringify_block(&a), tx::stringify_block(&b));
            if sb.blocks > 0 { ctx.label("recovered"); }
            if sb.blocks > 0 && (is_graph || !feats.is_empty()) { ctx.nontrivial(); }
            // structural invariants
            for r in &sb.label_refs { match sb.label_defs.get(r) { Some(1) => {}, other => return Outcome::Fail(Failure::new("c07:label-lost-or-duplicated", format!("label {} is referenced but defined {:?} times after block recovery\n{}", r, other, show()))) } }
            if sa.explicit_time_gotos != sb.explicit_time_gotos { return Outcome::Fail(Failure::new("c07:explicit-time-jump-captured", format!("{} jumps with an explicit time before, {} after\n{}", sa.explicit_time_gotos, sb.explicit_time_gotos, show()))); }
            if sa.time_labels != sb.time_labels { return Outcome::Fail(Failure::new("c07:time-labels-altered", format!("{:?}\nvs\n{:?}\n{}", sa.time_labels, sb.time_labels, show()))); }
            // behaviour
            let (Ok(ra), Ok(rb)) = (tx::to_raw(truth, &a), tx::to_raw(truth, &b)) else { return Outcome::Discard("to_raw".into()); };
            let mut flat_b: Option<ast::Block> = None;
            let mut compared = 0;
            for (i, val) in vals.iter().enumerate() {
                let difficulty = (i % 4) as u32;
                ctx.sub_evals += 1;
                // the property's domain excludes NaN (block recovery inverts float comparisons): run the instruction stream on the
                // harness's own machine first and skip valuations on which some operation produces NaN / inf or casts out of range
                { let mut m = crate::model::machine::Machine::new(val.clone()); let _ = m.run(&spec, &instrs, difficulty, 4, 300_000); if m.wild { ctx.label("wild-valuation"); continue; } }
                let va = match tx::run_vm(truth, &ra, val, difficulty, 20000) { tx::VmStop::Done(r) => r, tx::VmStop::IterLimit => { ctx.label("vm-iter-limit"); continue; }, tx::VmStop::Panic(m) => return Outcome::Discard(format!("vm-panic(A):{}", m.chars().take(60).collect::<String>())) };
                let vb = match tx::run_vm(truth, &rb, val, difficulty, 81000) {
                    tx::VmStop::Done(r) => r,
                    tx::VmStop::IterLimit => return Outcome::Fail(Failure::new("c07:recovered-form-does-not-terminate", format!("valuation {}\n{}", i, show()))),
                    tx::VmStop::Panic(m) if m.contains("did not exist within the same or outer scopes") => {
                        // a jump into a nested block: AstVm cannot run it; flatten with desugar_blocks (checked by C06)
                        ctx.label("needs_flatten");
                        if flat_b.is_none() {
                            let mut fb = b.clone();
                            if let Err(e) = truth::passes::desugar_blocks::run(&mut fb, truth.ctx(), truth::LanguageKey::Anm) { e.ignore(); return Outcome::Fail(Failure::new("c07:recovered-form-cannot-be-desugared", show())); }
                            match tx::to_raw(truth, &fb) { Ok(x) => flat_b = Some(x), Err(()) => return Outcome::Discard("to_raw".into()) }
                        }
                        match tx::run_vm(truth, flat_b.as_ref().unwrap(), val, difficulty, 81000) {
                            tx::VmStop::Done(r) => r,
                            tx::VmStop::IterLimit => return Outcome::Fail(Failure::new("c07:recovered-form-does-not-terminate", format!("valuation {}\n{}", i, show()))),
                            tx::VmStop::Panic(m) => return Outcome::Fail(Failure::new(format!("c07:recovered-form-vm-panic:{}", super::c02::sig_digits(&m)), format!("{}\n{}", m, show()))),
                        }
                    }
                    tx::VmStop::Panic(m) => return Outcome::Fail(Failure::new(format!("c07:recovered-form-vm-panic:{}", super::c02::sig_digits(&m)), format!("{}\n{}", m, show()))),
                };
                if let Some(d) = super::c06::compare_vm(&va, &vb) {
                    return Outcome::Fail(Failure::new(format!("c07:behaviour:{}", super::c02::sig_digits(d.split(':').next().unwrap_or(""))), format!("valuation {} difficulty {}: {}\n{}", i, difficulty, d, show())));
                }
                compared += 1;
            }
            if compared == 0 { return Outcome::Discard("no-comparable-valuation".into()); }
            Outcome::Pass
        })
    }
}
