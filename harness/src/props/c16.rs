//! C16 — any binary input ends in success or a diagnostic, never a crash.
use serde_json::{json, Value};
use std::sync::atomic::Ordering;
use crate::engine::*;
use crate::files::{self, Fmt};
use crate::gen::files::*;
use crate::props::c01::{opts_from_bits, pick_fmt};
use crate::tx;

pub struct C16;

/// requests above this are refused by the allocator guard (the process then aborts: reported as a crash)
const HARD_LIMIT: usize = 2 << 30;
/// a single request above this for an input of at most a few hundred KiB is reported as a violation
const SOFT_LIMIT: usize = 512 << 20;

pub const INTERESTING32: &[u32] = &[0, 1, 2, 3, 4, 7, 8, 16, 0x7f, 0x80, 0xff, 0x100, 0x7fff, 0x8000, 0xffff, 0x10000, 0x00ff_ffff, 0x0100_0000, 0x3fff_ffff, 0x4000_0000, 0x7fff_ffff, 0x8000_0000, 0xffff_fffe, 0xffff_ffff, 0xffff_fffc, 0xffff_ff00, 10000, 10001, 0xffff_d8f0, 0x5854_4854];

pub fn bundled_all() -> Vec<(String, Fmt, String)> {
    let mut out = vec![];
    for dir in ["/repo/tests/integration/bits-2-bits", "/repo/tests/integration/resources"] {
        let Ok(rd) = std::fs::read_dir(dir) else { continue };
        let mut names: Vec<String> = rd.filter_map(|e| e.ok()).map(|e| e.file_name().to_string_lossy().to_string()).collect();
        names.sort();
        for n in names {
            let fmt = if n.ends_with(".anm") { Fmt::Anm } else if n.ends_with(".std") { Fmt::Std } else if n.ends_with(".msg") { Fmt::Msg } else { continue };
            let game = n.split('-').next().unwrap_or("th10").to_string();
            out.push((format!("{}/{}", dir, n), fmt, game));
        }
    }
    out
}

/// One mutation step; positions are 16-bit fractions of the current length so that a case does not
/// depend on knowing the compiled length at generation time.
pub fn gen_mutation(t: &mut Tape) -> Value {
    let at = if t.chance(1, 3) { t.below(4096) as u32 } else { t.below(65536) as u32 }; // bias towards the header
    match t.below(12) {
        0 => json!({"op": "trunc", "at": t.below(65536)}),
        1 => json!({"op": "set8", "at": at, "v": *t.pick(&[0u32, 0xff, 0x80, 0x7f, 1, 0x40, 0x5c, 0x81])}),
        2 | 3 | 4 => json!({"op": "set32", "at": at, "v": *t.pick(INTERESTING32)}),
        5 => json!({"op": "set32len", "at": at, "d": t.below(9) as i64 - 4}),
        6 => json!({"op": "add32", "at": at, "d": *t.pick(&[1i64, -1, 4, -4, 2, -2, 16, -16, 0x100, -0x100])}),
        7 => json!({"op": "set16", "at": at, "v": *t.pick(&[0u32, 1, 0xffff, 0x8000, 0x7fff, 0xff, 0x100, 0xfffe])}),
        8 => json!({"op": "del", "at": at, "n": 1 + t.below(16)}),
        9 => json!({"op": "ins", "at": at, "n": 1 + t.below(16), "v": *t.pick(&[0u32, 0xff, 0x41])}),
        10 => json!({"op": "copy", "from": t.below(65536), "at": at, "n": 1 + t.below(32)}),
        _ => json!({"op": "set32", "at": at, "v": t.raw()}),
    }
}

pub fn apply_mutation(b: &mut Vec<u8>, m: &Value) {
    let pos = |frac: u64, len: usize, align: usize| -> usize { let p = ((frac as u128 * (len as u128 + 1)) >> 16) as usize; (p / align) * align };
    let at = m["at"].as_u64().unwrap_or(0);
    let len = b.len();
    match m["op"].as_str().unwrap_or("") {
        "trunc" => { let p = pos(at, len, 1); b.truncate(p); }
        "set8" => { let p = pos(at, len, 1); if p < len { b[p] = m["v"].as_u64().unwrap_or(0) as u8; } }
        "set16" => { let p = pos(at, len, 2); if p + 2 <= len { b[p..p + 2].copy_from_slice(&(m["v"].as_u64().unwrap_or(0) as u16).to_le_bytes()); } }
        "set32" => { let p = pos(at, len, 4); if p + 4 <= len { b[p..p + 4].copy_from_slice(&(m["v"].as_u64().unwrap_or(0) as u32).to_le_bytes()); } }
        "set32len" => { let p = pos(at, len, 4); if p + 4 <= len { let v = (len as i64 + m["d"].as_i64().unwrap_or(0)) as u32; b[p..p + 4].copy_from_slice(&v.to_le_bytes()); } }
        "add32" => { let p = pos(at, len, 4); if p + 4 <= len { let v = u32::from_le_bytes([b[p], b[p + 1], b[p + 2], b[p + 3]]).wrapping_add(m["d"].as_i64().unwrap_or(0) as u32); b[p..p + 4].copy_from_slice(&v.to_le_bytes()); } }
        "del" => { let p = pos(at, len, 1); let n = (m["n"].as_u64().unwrap_or(1) as usize).min(len - p.min(len)); if p < len { b.drain(p..p + n); } }
        "ins" => { let p = pos(at, len, 1).min(len); let n = m["n"].as_u64().unwrap_or(1) as usize; let v = m["v"].as_u64().unwrap_or(0) as u8; for _ in 0..n { b.insert(p, v); } }
        "copy" => { let p = pos(at, len, 1); let f = pos(m["from"].as_u64().unwrap_or(0), len, 1); let n = m["n"].as_u64().unwrap_or(1) as usize; for i in 0..n { if p + i < len && f + i < len { b[p + i] = b[f + i]; } } }
        _ => {}
    }
}

pub fn base_bytes(case: &Value) -> Result<Vec<u8>, Outcome> {
    let fmt = Fmt::parse(case["fmt"].as_str().unwrap());
    let game = case["game"].as_str().unwrap();
    match case["base"].as_str().unwrap_or("raw") {
        "bundled" => std::fs::read(case["path"].as_str().unwrap()).map_err(|e| Outcome::Discard(format!("cannot read bundled file: {}", e))),
        "generated" => {
            // compiled for `src_game`; read as `game` (usually the same)
            let g = files::game_from_str(case["src_game"].as_str().unwrap_or(game));
            let text = case["text"].as_str().unwrap();
            tx::with_truth(|truth| files::compile_file(truth, fmt, g, text.as_bytes(), &[], vec![]).map(|c| c.bytes))
                .map_err(|s| Outcome::Discard(format!("source rejected ({}:{:?})", fmt.name(), s)))
        }
        _ => Ok(hex_decode(case["hex"].as_str().unwrap_or(""))),
    }
}

pub fn hex_decode(s: &str) -> Vec<u8> { (0..s.len() / 2).filter_map(|i| u8::from_str_radix(&s[2 * i..2 * i + 2], 16).ok()).collect() }
pub fn hex_encode(b: &[u8]) -> String { b.iter().map(|x| format!("{:02x}", x)).collect() }

/// Run read + decompile + print (+ extract) on `bytes`; classify.
pub fn robustness(fmt: Fmt, game: &str, bytes: &[u8], opt_bits: u32, extract: bool, ctx: &mut CheckCtx) -> Result<(), Failure> {
    let g = files::game_from_str(game);
    let options = opts_from_bits(opt_bits);
    ALLOC_MAX_SINGLE.store(0, Ordering::SeqCst);
    ALLOC_LIMIT.store(HARD_LIMIT, Ordering::SeqCst);
    let r = catch(|| tx::with_truth(|truth| {
        let r = files::decompile_file(truth, fmt, g, bytes, &options, &[]);
        let d = tx::diags(truth);
        match r {
            Ok(ast) => { let text = tx::format_at(&ast, 100); (true, d, text.err()) }
            Err(_) => (false, d, None),
        }
    }));
    let r2 = if extract && fmt == Fmt::Anm {
        let dir = std::path::PathBuf::from(format!("/dev/shm/tv-extract-{}", std::process::id()));
        let _ = std::fs::remove_dir_all(&dir);
        let _ = std::fs::create_dir_all(&dir);
        let r = catch(|| tx::with_truth(|truth| { let r = files::extract_images(truth, g, bytes, &dir); (r.is_ok(), tx::diags(truth)) }));
        let _ = std::fs::remove_dir_all(&dir);
        Some(r)
    } else { None };
    ALLOC_LIMIT.store(usize::MAX, Ordering::SeqCst);
    let biggest = ALLOC_MAX_SINGLE.load(Ordering::SeqCst);
    match r {
        Err(p) => return Err(p.to_failure("c16:decompile:")),
        Ok((ok, d, fmt_err)) => {
            if let Some(e) = fmt_err { return Err(Failure::new("c16:print-failed", e)); }
            if ok { ctx.label("decompile:ok"); } else {
                ctx.label("decompile:error");
                if !tx::has_error_diag(&d) { return Err(Failure::new(format!("c16:error-without-diagnostic:{}", fmt.name()), format!("decompile failed but printed no error diagnostic; diagnostics: {:?}", d))); }
                if !d.contains("<input file>") { return Err(Failure::new(format!("c16:diagnostic-does-not-name-file:{}", fmt.name()), format!("diagnostics: {:?}", d))); }
            }
        }
    }
    if let Some(r2) = r2 {
        match r2 {
            Err(p) => return Err(p.to_failure("c16:extract:")),
            Ok((ok, d)) => {
                if ok { ctx.label("extract:ok"); } else {
                    ctx.label("extract:error");
                    if !tx::has_error_diag(&d) { return Err(Failure::new("c16:extract-error-without-diagnostic", d)); }
                }
            }
        }
    }
    if biggest > SOFT_LIMIT { return Err(Failure::new(format!("c16:huge-allocation:{}", fmt.name()), format!("a single allocation of {} bytes was requested for an input of {} bytes", biggest, bytes.len()))); }
    Ok(())
}

impl Property for C16 {
    fn id(&self) -> &'static str { "C16" }
    fn rule(&self) -> &'static str {
        "byte strings = (bundled test binaries | binaries compiled from generated ANM (with dummy images) / STD / MSG / END / mission / pre-TH10 ECL sources | short raw strings) after 0..4 mutations (truncate anywhere; set 8/16/32-bit fields to boundary values, to the file length +-4, +-small deltas; delete / insert / copy chunks), read as the same or another game of the format, under sampled decompile options, plus image extraction for ANM: read+decompile+print(+extract) must return Ok or Err-with-error-diagnostic; panic / abort / stack overflow / single allocation > 256 MiB = violation; hang = inconclusive. non-trivial = at least one mutation applied to a non-empty base, or a raw string"
    }
    fn tape_len(&self, tier: Tier) -> usize { tier.pick(300, 500) }
    fn cases(&self, tier: Tier) -> u32 { tier.pick(200_000, 4_000_000) }
    fn required_labels(&self, _tier: Tier) -> Vec<&'static str> { vec!["fmt:anm", "fmt:std", "fmt:msg", "fmt:end", "fmt:mission", "fmt:ecl", "base:bundled", "base:generated", "base:raw", "decompile:ok", "decompile:error", "extract:ok", "extract:error", "mut:trunc", "mut:set32", "cross-game"] }
    fn max_discard_fraction(&self) -> f64 { 0.3 }

    fn fixed_cases(&self, tier: Tier, _known: &Known) -> Vec<Value> {
        // every truncation of every bundled file (thorough: all offsets; quick: header region + every 4th)
        let mut out = vec![];
        for (path, fmt, game) in bundled_all() {
            let len = std::fs::metadata(&path).map(|m| m.len() as usize).unwrap_or(0);
            if len > 4000 && tier == Tier::Quick { continue; }
            for cut in 0..len.min(30000) {
                if tier == Tier::Quick && cut > 96 && cut % 4 != 0 { continue; }
                out.push(json!({"base": "bundled", "path": path, "fmt": fmt.name(), "game": game, "cut": cut, "mutations": [], "options": 0, "extract": fmt == Fmt::Anm}));
            }
        }
        out
    }

    fn generate(&self, tape: &mut Tape, tier: Tier, _known: &Known) -> Value {
        let nmut = *tape.pick(&[1usize, 1, 2, 1, 3, 0, 4]);
        let options = if tape.chance(2, 3) { 0 } else { tape.below(32) as u32 };
        let extract = tape.chance(1, 2);
        let kind = tape.below(10);
        let mut case = if kind < 3 {
            let all = bundled_all();
            let (path, fmt, game) = tape.pick(&all).clone();
            json!({"base": "bundled", "path": path, "fmt": fmt.name(), "game": game, "src_game": game})
        } else if kind < 9 {
            let fmt = pick_fmt(tape);
            let game = if fmt == Fmt::Ecl && tape.chance(1, 3) { *tape.pick(MODERN_ECL_GAMES) } else { *tape.pick(games_for(fmt)) };
            let sub = tape.fork(tier.pick(200, 350));
            let mut sub = Tape::new(&sub);
            let f = gen_file(&mut sub, fmt, game, tier.pick(6, 14));
            json!({"base": "generated", "fmt": fmt.name(), "game": game, "src_game": game, "text": f.text})
        } else {
            let fmt = pick_fmt(tape);
            let game = if fmt == Fmt::Ecl && tape.chance(1, 3) { *tape.pick(MODERN_ECL_GAMES) } else { *tape.pick(games_for(fmt)) };
            let n = *tape.pick(&[0usize, 1, 3, 4, 8, 16, 64, 5, 12]);
            let style = tape.below(3);
            let bytes: Vec<u8> = (0..n).map(|_| match style { 0 => 0, 1 => 0xff, _ => tape.below(256) as u8 }).collect();
            json!({"base": "raw", "fmt": fmt.name(), "game": game, "hex": hex_encode(&bytes)})
        };
        // sometimes read the file as another game of the same format
        if tape.chance(1, 8) {
            let fmt = Fmt::parse(case["fmt"].as_str().unwrap());
            let other = if fmt == Fmt::Ecl && tape.chance(1, 3) { *tape.pick(MODERN_ECL_GAMES) } else { *tape.pick(games_for(fmt)) };
            if case["game"].as_str() != Some(other) { case["game"] = json!(other); }
        }
        let muts: Vec<Value> = (0..nmut).map(|_| gen_mutation(tape)).collect();
        case["mutations"] = json!(muts);
        case["options"] = json!(options);
        case["extract"] = json!(extract);
        case
    }

    fn check(&self, case: &Value, ctx: &mut CheckCtx) -> Outcome {
        let fmt = Fmt::parse(case["fmt"].as_str().unwrap());
        let game = case["game"].as_str().unwrap();
        ctx.label(format!("fmt:{}", fmt.name()));
        ctx.label(format!("base:{}", case["base"].as_str().unwrap_or("raw")));
        if case.get("src_game").map_or(false, |s| s.as_str() != Some(game)) { ctx.label("cross-game"); }
        let mut bytes = match base_bytes(case) { Ok(b) => b, Err(o) => return o };
        if let Some(cut) = case.get("cut").and_then(|c| c.as_u64()) { bytes.truncate(cut as usize); ctx.label("mut:trunc"); ctx.nontrivial(); }
        let muts = case["mutations"].as_array().cloned().unwrap_or_default();
        for m in &muts {
            let op = m["op"].as_str().unwrap_or("");
            ctx.label(format!("mut:{}", if op.starts_with("set32") { "set32" } else { op }));
            apply_mutation(&mut bytes, m);
        }
        if (!muts.is_empty() && !bytes.is_empty()) || case["base"] == "raw" { ctx.nontrivial(); }
        if muts.is_empty() && case.get("cut").is_none() { ctx.label("unmutated"); }
        let options = case["options"].as_u64().unwrap_or(0) as u32;
        match robustness(fmt, game, &bytes, options, case["extract"].as_bool().unwrap_or(false), ctx) {
            Ok(()) => Outcome::Pass,
            Err(f) => Outcome::Fail(f),
        }
    }
}
