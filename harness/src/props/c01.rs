//! C01 — decompile then recompile reproduces the binary bit-for-bit.
use serde_json::{json, Value};
use crate::engine::*;
use crate::files::{self, Fmt};
use crate::gen::files::*;
use crate::tx;

pub struct C01;

pub fn opts_from_bits(bits: u32) -> truth::DecompileOptions {
    truth::DecompileOptions { blocks: bits & 1 == 0, intrinsics: bits & 2 == 0, arguments: bits & 4 == 0, diff_switches: bits & 8 == 0, calls: bits & 16 == 0, show_instr_offsets: false }
}

pub fn pick_fmt(t: &mut Tape) -> Fmt { *t.pick(&[Fmt::Anm, Fmt::Anm, Fmt::Std, Fmt::Msg, Fmt::Msg, Fmt::Ecl, Fmt::Ecl, Fmt::End, Fmt::Mission]) }

/// a mapfile that only adds names (instruction aliases, register aliases)
pub fn gen_name_map(t: &mut Tape, fmt: Fmt, game: &str) -> Option<String> {
    let (magic, language) = match fmt { Fmt::Anm => ("!anmmap", truth::LanguageKey::Anm), Fmt::Std => ("!stdmap", truth::LanguageKey::Std), Fmt::Msg => ("!msgmap", truth::LanguageKey::Msg), Fmt::End => ("!endmap", truth::LanguageKey::End), Fmt::Ecl => ("!eclmap", truth::LanguageKey::Ecl), Fmt::Mission => return None };
    let lang = cached_lang(game, language);
    let mut s = format!("{}\n!ins_names\n", magic);
    for op in lang.sigs.keys() { if t.chance(1, 3) { s.push_str(&format!("{} nm_{}\n", op, op)); } }
    s.push_str("!gvar_names\n");
    for r in lang.int_regs.iter().chain(lang.float_regs.iter()) { if t.chance(1, 3) { s.push_str(&format!("{} rg{}{}\n", r, if *r < 0 { "m" } else { "" }, r.abs())); } }
    Some(s)
}

/// first error message of a diagnostics dump, as a signature component
pub fn slug(diags: &str) -> String {
    let line = diags.lines().find(|l| l.starts_with("error")).unwrap_or("no-error-line");
    let mut out = String::new();
    for c in line.trim_start_matches("error:").trim().chars() { if c.is_ascii_alphanumeric() { out.push(c.to_ascii_lowercase()); } else if !out.ends_with('-') { out.push('-'); } }
    out.trim_matches('-').chars().take(60).collect()
}

fn bundled_files() -> Vec<(String, Fmt, String)> {
    let mut out = vec![];
    for dir in ["/repo/tests/integration/bits-2-bits", "/repo/tests/integration/resources"] {
        let Ok(rd) = std::fs::read_dir(dir) else { continue };
        let mut names: Vec<String> = rd.filter_map(|e| e.ok()).map(|e| e.file_name().to_string_lossy().to_string()).collect();
        names.sort();
        for n in names {
            let fmt = if n.ends_with(".anm") { Fmt::Anm } else if n.ends_with(".std") { Fmt::Std } else if n.ends_with(".msg") { Fmt::Msg } else { continue };
            let game = n.split('-').next().unwrap_or("th10").to_string();
            out.push((format!("{}/{}", dir, n), fmt, game));
        }
    }
    out
}

/// The round trip.  Returns Ok(labels) or a failure.
pub fn round_trip(fmt: Fmt, game: &str, original: &[u8], opt_bits: u32, width: usize, maps: &[String], ctx: &mut CheckCtx) -> Result<(), Outcome> {
    let g = files::game_from_str(game);
    let options = opts_from_bits(opt_bits);
    let (text, warnings) = tx::with_truth(|truth| {
        let ast = files::decompile_file(truth, fmt, g, original, &options, maps).map_err(|s| (s, tx::diags(truth)))?;
        let d = tx::diags(truth);
        let text = tx::format_at(&ast, width).map_err(|e| (files::DStage::Decompile, e))?;
        Ok::<_, (files::DStage, String)>((text, d))
    }).map_err(|(s, d)| Outcome::Fail(Failure::new(format!("c01:decompile-failed:{}:{:?}", fmt.name(), s), format!("game {}\n{}", game, d.chars().take(2000).collect::<String>()))))?;
    if !warnings.is_empty() { ctx.label("exempt_lossy"); return Ok(()); }
    let sources = if fmt == Fmt::Anm { vec![files::ImageSrc::AnmBytes(original.to_vec())] } else { vec![] };
    let again = tx::with_truth(|truth| files::compile_file(truth, fmt, g, text.as_bytes(), maps, sources).map(|c| c.bytes).map_err(|s| (s, tx::diags(truth))));
    match again {
        Err((s, d)) => Err(Outcome::Fail(Failure::new(format!("c01:decompiled-text-does-not-compile:{}:{}:{:?}", slug(&d), fmt.name(), s), format!("game {} options {:#b} width {}\n{}\n--- decompiled:\n{}", game, opt_bits, width, d.chars().take(1500).collect::<String>(), text.chars().take(4000).collect::<String>())))),
        Ok(b) => {
            if b == original { Ok(()) } else {
                let first = b.iter().zip(original.iter()).position(|(x, y)| x != y).unwrap_or(b.len().min(original.len()));
                Err(Outcome::Fail(Failure::new(format!("c01:bytes-differ:{}", fmt.name()), format!("game {} options {:#b} width {}: recompiled file differs at byte {:#x} (lengths {} vs {})\n--- decompiled:\n{}", game, opt_bits, width, first, b.len(), original.len(), text.chars().take(4000).collect::<String>()))))
            }
        }
    }
}

impl Property for C01 {
    fn id(&self) -> &'static str { "C01" }
    fn rule(&self) -> &'static str {
        "(i) B = compile(S) for generated sources in ANM / STD / MSG / END / mission MSG / pre-TH10 ECL for representative games (valid metadata, instruction calls over the built-in signature tables with boundary immediates, registers, Shift-JIS strings, time labels incl. negative, gotos, loops, if/else, counted loops, interrupts, difficulty labels, assignments), (ii) all bundled test binaries; x decompile-option subsets x widths x optional name-only mapfiles; decompile -> print -> compile (original as image source for ANM) must give the same bytes unless decompile warned; non-trivial = the body has control flow, a register, a string, a negative time or a non-default option set"
    }
    fn tape_len(&self, tier: Tier) -> usize { tier.pick(300, 500) }
    fn cases(&self, tier: Tier) -> u32 { tier.pick(150000, 3000000) }
    fn required_labels(&self, _tier: Tier) -> Vec<&'static str> { vec!["fmt:anm", "fmt:std", "fmt:msg", "fmt:end", "fmt:mission", "fmt:ecl", "bundled", "goto", "loop", "string_arg", "register_arg", "negative_time", "options:nondefault", "name_map"] }

    fn fixed_cases(&self, tier: Tier, _known: &Known) -> Vec<Value> {
        let mut out = vec![];
        for (path, fmt, game) in bundled_files() {
            let configs: Vec<(u32, usize)> = match tier { Tier::Quick => vec![(0, 100), (1, 1), (2, 40), (4, 100), (31, 20), (8, 200)], Tier::Thorough => (0..32).flat_map(|o| [1usize, 7, 20, 40, 80, 100, 200].into_iter().map(move |w| (o, w))).collect() };
            for (o, w) in configs { out.push(json!({"mode": "bundled", "path": path, "fmt": fmt.name(), "game": game, "options": o, "width": w})); }
        }
        out
    }

    fn generate(&self, tape: &mut Tape, tier: Tier, _known: &Known) -> Value {
        let fmt = pick_fmt(tape);
        let game = *tape.pick(games_for(fmt));
        let options = if tape.chance(1, 2) { 0 } else { tape.below(32) as u32 };
        let width = *tape.pick(&[100usize, 1, 40, 20, 200, 7, 80]);
        let map = if tape.chance(1, 4) { gen_name_map(tape, fmt, game) } else { None };
        let f = gen_file(tape, fmt, game, tier.pick(10, 25));
        json!({"mode": "generated", "fmt": fmt.name(), "game": game, "text": f.text, "features": f.feats, "options": options, "width": width, "map": map})
    }

    fn check(&self, case: &Value, ctx: &mut CheckCtx) -> Outcome {
        let fmt = Fmt::parse(case["fmt"].as_str().unwrap());
        let game = case["game"].as_str().unwrap();
        let options = case["options"].as_u64().unwrap_or(0) as u32;
        let width = case["width"].as_u64().unwrap_or(100) as usize;
        ctx.label(format!("fmt:{}", fmt.name()));
        if options != 0 { ctx.label("options:nondefault"); }
        let maps: Vec<String> = case["map"].as_str().map(|s| vec![s.to_string()]).unwrap_or_default();
        if !maps.is_empty() { ctx.label("name_map"); }
        let original: Vec<u8> = if case["mode"] == "bundled" {
            ctx.label("bundled"); ctx.nontrivial();
            match std::fs::read(case["path"].as_str().unwrap()) { Ok(b) => b, Err(e) => return Outcome::Discard(format!("cannot read bundled file: {}", e)) }
        } else {
            let feats: Vec<String> = case["features"].as_array().map(|a| a.iter().map(|x| x.as_str().unwrap().to_string()).collect()).unwrap_or_default();
            for f in &feats { ctx.label(f.clone()); }
            if options != 0 || feats.iter().any(|f| matches!(f.as_str(), "goto" | "loop" | "if_else" | "count_loop" | "register_arg" | "string_arg" | "negative_time" | "interrupt")) { ctx.nontrivial(); }
            let g = files::game_from_str(game);
            let text = case["text"].as_str().unwrap();
            match tx::with_truth(|truth| files::compile_file(truth, fmt, g, text.as_bytes(), &maps, vec![]).map(|c| (c.bytes, tx::diags(truth))).map_err(|s| (s, tx::diags(truth)))) {
                Ok((b, d)) => {
                    // a source whose own compilation warns (unused script, ...) is outside the generated domain
                    if !d.trim().is_empty() { return Outcome::Discard(format!("source compiles with a warning: {}", d.lines().next().unwrap_or("").chars().take(60).collect::<String>())); }
                    b
                }
                Err((s, d)) => {
                    if !tx::has_error_diag(&d) { return Outcome::Fail(Failure::new("c01:err-without-diagnostic", format!("{:?}\n{}", s, text))); }
                    return Outcome::Discard(format!("source rejected ({}:{:?}): {}", fmt.name(), s, d.lines().next().unwrap_or("").chars().take(70).collect::<String>()));
                }
            }
        };
        match round_trip(fmt, game, &original, options, width, &maps, ctx) { Ok(()) => Outcome::Pass, Err(o) => o }
    }
}
