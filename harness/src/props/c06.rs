//! C06 — turning blocks into labels and jumps preserves behaviour.
//! Oracle: AstVm on the structured body vs AstVm on the same body after passes::desugar_blocks::run.
use serde_json::{json, Value};
use crate::engine::*;
use crate::gen::{body::*, lang::*, prog::*};
use crate::tx;
use super::c02::{valuations_from_json, valuations_to_json};

pub struct C06;

fn has_time_label_in_block(body: &[SNode]) -> bool {
    let mut f = false;
    visit_stmts(body, 0, &mut |s, d| if d >= 1 && matches!(s.kind, Stmt::TimeAbs(_) | Stmt::TimeRel(_)) { f = true; });
    f
}
fn has_loop(body: &[SNode]) -> bool {
    let mut f = false;
    visit_stmts(body, 0, &mut |s, _| if matches!(s.kind, Stmt::While { .. } | Stmt::DoWhile { .. } | Stmt::Times { .. } | Stmt::Loop { .. }) { f = true; });
    f
}

pub fn compare_vm(a: &tx::VmRun, b: &tx::VmRun) -> Option<String> {
    if a.log.len() != b.log.len() { return Some(format!("call log length differs: {} vs {}\n before: {:?}\n after: {:?}", a.log.len(), b.log.len(), a.log, b.log)); }
    for (i, (x, y)) in a.log.iter().zip(b.log.iter()).enumerate() {
        let same = x.0 == y.0 && x.1 == y.1 && x.2.len() == y.2.len() && x.2.iter().zip(y.2.iter()).all(|(p, q)| p.same(*q));
        if !same { return Some(format!("call #{} differs: before {:?} vs after {:?}", i, x, y)); }
    }
    if a.time != b.time { return Some(format!("final time differs: before {} vs after {}", a.time, b.time)); }
    if a.real_time != b.real_time { return Some(format!("final real_time differs: before {} vs after {}", a.real_time, b.real_time)); }
    for (r, v) in &a.regs {
        if let Some(w) = b.regs.get(r) { if !v.same(*w) { return Some(format!("final value of REG[{}] differs: before {} vs after {}", r, v.show(), w.show())); } }
    }
    None
}

impl Property for C06 {
    fn id(&self) -> &'static str { "C06" }
    fn rule(&self) -> &'static str {
        "generated structured bodies (if/else-if/else chains, unless, while, do-while, times with/without clobber and constant/register counts, loop+break, free blocks, difficulty labels, time labels incl. decreasing/negative ones at block starts/ends) x both counting-jump flavours x 8 register valuations (difficulty = index mod 4); non-trivial = nesting depth >= 2 and a time label inside a nested block and at least one loop"
    }
    fn tape_len(&self, tier: Tier) -> usize { tier.pick(400, 800) }
    fn cases(&self, tier: Tier) -> u32 { tier.pick(150000, 3000000) }
    fn required_labels(&self, _tier: Tier) -> Vec<&'static str> { vec!["depth>=3", "loop", "time_label_in_block", "flavor:>", "flavor:!=", "break"] }

    fn generate(&self, tape: &mut Tape, tier: Tier, known: &Known) -> Value {
        let knobs = LangKnobs { pad_intrinsics: 0, rich: true, anti_scratch: false };
        let mut spec = gen_lang(tape, &knobs);
        // desugaring needs no scratch registers; make all expression forms available to the generator
        for r in spec.regs.iter_mut() { if r.class == RegClass::Gp && r.id < 1008 { r.scratch = true; } }
        let mut cfg = BodyCfg::full();
        cfg.raw_jumps = false;
        // time labels are non-decreasing in textual order: AstVm's structured statements force the time at block exits, which only
        // coincides with the jump semantics when time does not decrease (DESIGN.md §5b)
        cfg.time_decrease = false;
        cfg.max_depth = tier.pick(4, 5);
        cfg.max_stmts = tier.pick(16, 24);
        cfg.label_structured = true;
        cfg.exclude_label_on_cond_region = known.has("desugar-difflabel-cond-region");
        let body = { let mut g = BodyGen::new(tape, &spec, cfg); g.body() };
        let text = format!("{{\n{}}}\n", print_body(&body));
        let vals: Vec<Vec<(i32, crate::model::ops::Val)>> = gen_valuations(tape, &spec, 8);
        let mut labelled_cond_region = false;
        visit_stmts(&body, 0, &mut |s, _| if s.diff.is_some() && matches!(s.kind, Stmt::While { .. } | Stmt::If { .. }) { labelled_cond_region = true; });
        let mut has_break = false;
        visit_stmts(&body, 0, &mut |s, _| if matches!(s.kind, Stmt::Break) || matches!(&s.kind, Stmt::CondGoto { label, .. } if label == COND_BREAK) { has_break = true; });
        json!({"spec": spec.to_json(), "text": text, "valuations": valuations_to_json(&vals),
               "depth": max_depth(&body), "time_label_in_block": has_time_label_in_block(&body), "loop": has_loop(&body), "break": has_break, "labelled_cond_region": labelled_cond_region})
    }

    fn check(&self, case: &Value, ctx: &mut CheckCtx) -> Outcome {
        let spec = LangSpec::from_json(&case["spec"]);
        let text = case["text"].as_str().unwrap();
        let vals = valuations_from_json(&case["valuations"]);
        let hooks = spec.hooks();
        tx::with_truth(|truth| {
            let opts = tx::PipeOpts { const_simplify: false, lower: false, debug_info: false, stop_after_typecheck: false };
            let compiled = match tx::compile_body(truth, &spec, &hooks, text, opts) {
                Ok(c) => c,
                Err(stage) => {
                    let d = tx::diags(truth);
                    if !tx::has_error_diag(&d) { return Outcome::Fail(Failure::new("c06:err-without-diagnostic", format!("failed at {:?} without an error diagnostic", stage))); }
                    return Outcome::Discard(format!("frontend-error:{:?}", stage));
                }
            };
            let (Ok(before), Ok(after)) = (tx::to_raw(truth, &compiled.structured), tx::to_raw(truth, &compiled.flat)) else { return Outcome::Discard("aliases_to_raw failed".into()); };
            let depth = case["depth"].as_u64().unwrap_or(0);
            if depth >= 3 { ctx.label("depth>=3"); }
            if case["loop"] == true { ctx.label("loop"); }
            if case["break"] == true { ctx.label("break"); }
            if case["time_label_in_block"] == true { ctx.label("time_label_in_block"); }
            let flavor = spec.avail().count_jmp.unwrap_or_default();
            ctx.label(format!("flavor:{}", flavor));
            if depth >= 2 && case["time_label_in_block"] == true && case["loop"] == true { ctx.nontrivial(); }
            let mut compared = 0;
            for (i, val) in vals.iter().enumerate() {
                let difficulty = (i % 4) as u32;
                ctx.sub_evals += 1;
                let a = match tx::run_vm(truth, &before, val, difficulty, 20000) {
                    tx::VmStop::Done(r) => r,
                    tx::VmStop::IterLimit => { ctx.label("vm-iter-limit"); continue; }
                    tx::VmStop::Panic(msg) => return Outcome::Discard(format!("vm-panic-before:{}", msg.chars().take(50).collect::<String>())),
                };
                let b = match tx::run_vm(truth, &after, val, difficulty, 200000) {
                    tx::VmStop::Done(r) => r,
                    tx::VmStop::IterLimit => return Outcome::Fail(Failure::new("c06:flat-form-does-not-terminate", format!("valuation {}: structured form terminates, flat form hit the iteration limit", i))),
                    tx::VmStop::Panic(msg) => return Outcome::Fail(Failure::new(format!("c06:flat-form-vm-panic:{}", super::c02::sig_digits(&msg)), format!("valuation {}: {}\nflat:\n{}", i, msg, tx::stringify_block(&compiled.flat)))),
                };
                if let Some(diff) = compare_vm(&a, &b) {
                    let sig = if case["labelled_cond_region"] == true { "c06:difflabel-on-cond-region".to_string() } else { format!("c06:behaviour:{}", super::c02::sig_digits(diff.split(':').next().unwrap_or(""))) };
                    return Outcome::Fail(Failure::new(sig,
                        format!("valuation {} difficulty {}: {}\nflat form:\n{}", i, difficulty, diff, tx::stringify_block(&compiled.flat))));
                }
                compared += 1;
            }
            if compared == 0 { return Outcome::Discard("no-comparable-valuation".into()); }
            Outcome::Pass
        })
    }
}
