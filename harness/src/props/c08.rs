//! C08 — printed scripts parse back to the same script at every line width.
use serde_json::{json, Value};
use truth::ast;
use crate::engine::*;
use crate::gen::full::*;
use crate::gen::lang::*;
use crate::model::machine::MInstr;
use crate::tx;

pub struct C08;

fn parse_file(text: &str) -> Result<ast::ScriptFile, String> {
    tx::with_truth(|truth| truth.parse::<ast::ScriptFile>("<input>", text.as_bytes()).map(|x| x.value).map_err(|e| { e.ignore(); tx::diags(truth) }))
}
fn parse_block(text: &str) -> Result<ast::Block, String> {
    tx::with_truth(|truth| truth.parse::<ast::Block>("<input>", text.as_bytes()).map(|x| x.value).map_err(|e| { e.ignore(); tx::diags(truth) }))
}

/// bit patterns of all float literals and values of all int literals / strings, in traversal order
fn literal_trace<T: truth::ast::Visitable>(x: &T) -> Vec<String> {
    use truth::ast::Visit;
    struct V(Vec<String>);
    impl Visit for V {
        fn visit_expr(&mut self, e: &truth::Sp<ast::Expr>) {
            match &e.value {
                ast::Expr::LitFloat { value } => self.0.push(format!("f{:08x}", value.to_bits())),
                ast::Expr::LitInt { value, .. } => self.0.push(format!("i{}", value)),
                ast::Expr::LitString(s) => self.0.push(format!("s{:?}", s.string)),
                _ => {}
            }
            ast::walk_expr(self, e);
        }
    }
    let mut v = V(vec![]);
    x.visit_with(&mut v);
    v.0
}

fn widths(tier: Tier, seed: u64) -> Vec<usize> {
    match tier { Tier::Thorough => (1..=200).collect(), Tier::Quick => { let mut w = vec![1, 2, 8, 20, 40, 60, 80, 100, 200]; w.push(3 + (seed % 37) as usize); w.push(41 + (seed % 59) as usize); w.push(101 + (seed % 97) as usize); w } }
}

/// the P checks on a script file: x = parse(text)
fn check_p_file(x: &ast::ScriptFile, ws: &[usize], ctx: &mut CheckCtx, origin: &str) -> Option<Failure> {
    let wide = match tx::format_at(x, 1000) { Ok(s) => s, Err(e) => return Some(Failure::new("c08:format-error", e)) };
    for &w in ws {
        ctx.sub_evals += 1;
        let s = match tx::format_at(x, w) { Ok(s) => s, Err(e) => return Some(Failure::new("c08:format-error", format!("width {}: {}", w, e))) };
        if s != wide { ctx.label("wrapped"); ctx.nontrivial(); }
        let y = match parse_file(&s) { Ok(y) => y, Err(d) => return Some(Failure::new(format!("c08:{}:printed-text-does-not-parse", origin), format!("width {}\n{}\n--- printed:\n{}", w, d.chars().take(800).collect::<String>(), s.chars().take(3000).collect::<String>()))) };
        let (mut xf, mut yf) = (x.clone(), y.clone());
        tx::fold_literal_signs(&mut xf); tx::fold_literal_signs(&mut yf);
        if yf != xf { return Some(Failure::new(format!("c08:{}:reparsed-script-differs", origin), format!("width {}\n--- printed:\n{}\n--- at width 1000:\n{}", w, s.chars().take(3000).collect::<String>(), wide.chars().take(3000).collect::<String>()))); }
        if literal_trace(&yf) != literal_trace(&xf) { return Some(Failure::new(format!("c08:{}:literal-bits-differ", origin), format!("width {}\n{}", w, s.chars().take(3000).collect::<String>()))); }
        let s2 = match tx::format_at(&y, w) { Ok(s) => s, Err(e) => return Some(Failure::new("c08:format-error", e)) };
        if s2 != s {
            let big = literal_trace(x).iter().any(|l| l.starts_with("i-"));
            let sig = if big { format!("c08:{}:printing-not-idempotent:literal>=2^31", origin) } else { format!("c08:{}:printing-not-idempotent", origin) };
            return Some(Failure::new(sig, format!("width {}\n--- first:\n{}\n--- second:\n{}", w, s.chars().take(2000).collect::<String>(), s2.chars().take(2000).collect::<String>())));
        }
    }
    None
}

fn check_p_block(x: &ast::Block, ws: &[usize], ctx: &mut CheckCtx, origin: &str) -> Option<Failure> {
    let wide = match tx::format_at(x, 1000) { Ok(s) => s, Err(e) => return Some(Failure::new("c08:format-error", e)) };
    for &w in ws {
        ctx.sub_evals += 1;
        let s = match tx::format_at(x, w) { Ok(s) => s, Err(e) => return Some(Failure::new("c08:format-error", format!("width {}: {}", w, e))) };
        if s != wide { ctx.label("wrapped"); ctx.nontrivial(); }
        let y = match parse_block(&s) { Ok(y) => y, Err(d) => return Some(Failure::new(format!("c08:{}:printed-text-does-not-parse", origin), format!("width {}\n{}\n--- printed:\n{}", w, d.chars().take(800).collect::<String>(), s.chars().take(3000).collect::<String>()))) };
        let (mut xf, mut yf) = (x.clone(), y.clone());
        tx::fold_literal_signs(&mut xf); tx::fold_literal_signs(&mut yf);
        if yf != xf { return Some(Failure::new(format!("c08:{}:reparsed-script-differs", origin), format!("width {}\n--- printed:\n{}\n--- at width 1000:\n{}", w, s.chars().take(3000).collect::<String>(), wide.chars().take(3000).collect::<String>()))); }
        if literal_trace(&yf) != literal_trace(&xf) { return Some(Failure::new(format!("c08:{}:literal-bits-differ", origin), format!("width {}\n{}", w, s.chars().take(3000).collect::<String>()))); }
        let s2 = match tx::format_at(&y, w) { Ok(s) => s, Err(e) => return Some(Failure::new("c08:format-error", e)) };
        if s2 != s {
            let big = literal_trace(x).iter().any(|l| l.starts_with("i-"));
            let sig = if big { format!("c08:{}:printing-not-idempotent:literal>=2^31", origin) } else { format!("c08:{}:printing-not-idempotent", origin) };
            return Some(Failure::new(sig, format!("width {}\n--- first:\n{}\n--- second:\n{}", w, s.chars().take(2000).collect::<String>(), s2.chars().take(2000).collect::<String>())));
        }
    }
    None
}

fn f32_classes() -> Vec<u32> { vec![0, 0x80000000, 1, 0x007fffff, 0x00800000, 0x3f800000, 0xbfc00000, 0x7f7fffff, 0xff7fffff, 0x7f800000, 0xff800000, 0x7fc00000, 0x3dcccccd, 0x4b800000, 0x4f000000] }

impl Property for C08 {
    fn id(&self) -> &'static str { "C08" }
    fn rule(&self) -> &'static str {
        "(P) ASTs obtained by parsing generated text over the full grammar (items, metas, consts, functions, every statement and expression form, int literals in every radix incl. 2^31..2^32-1, float spellings incl. subnormals/rad()/f-suffix, strings with escapes and multi-byte text, difficulty switches with holes, pseudo-args); (D) ASTs produced by the decompiler from generated instruction streams (every IntFormat via signature attributes, every f32 class by bit pattern, strings, unknown signatures -> @blob/@mask, difficulty labels/switches, jumps, time labels); for each AST and each width: printed text parses, equals the AST (plus literal bit patterns), printing is idempotent; for D the script is the same at every width as at width 1000; non-trivial = some width changed the line breaking"
    }
    fn tape_len(&self, tier: Tier) -> usize { tier.pick(300, 500) }
    fn cases(&self, tier: Tier) -> u32 { tier.pick(60000, 1000000) }
    fn required_labels(&self, _tier: Tier) -> Vec<&'static str> { vec!["P", "D", "wrapped", "feat:meta", "feat:function", "feat:diff_switch", "feat:pseudo_args", "feat:ternary", "feat:unary_minus", "feat:hex", "feat:subnormal", "feat:escapes", "feat:multibyte_string", "D:negative_literal", "D:blob", "D:float_classes", "D:unary_op_on_literal"] }

    fn generate(&self, tape: &mut Tape, _tier: Tier, known: &Known) -> Value {
        let wseed = tape.raw() as u64;
        if tape.chance(2, 3) {
            let cfg = FullCfg { special_calls: !known.has("special-call-parse-panic"), items: true, max_depth: 3, big_int_literals: !known.has("reprint-of-literal-ge-2^31") };
            let mut g = FullGen::new(tape, cfg);
            let text = g.script_file();
            json!({"mode": "P", "text": text, "features": g.feats, "wseed": wseed})
        } else {
            // D: an instruction stream for a generated signature set
            let spec = default_lang();
            let mut sigs: Vec<(u16, String)> = vec![];
            let letters = ["S", "U", "C", "U(hex)", "s", "u", "b", "c", "f", "S(imm)", "b(hex)", "n", "N"];
            for i in 0..4 { let n = 1 + tape.below(4); let sig: Vec<&str> = (0..n).map(|_| *tape.pick(&letters)).collect(); sigs.push((400 + i, sig.join(""))); }
            sigs.push((404, "z(bs=4)".into()));
            sigs.push((405, "Sm(bs=4;mask=0x77,7,16)".into()));
            let n = 1 + tape.below(10);
            let classes = f32_classes();
            let mut instrs = vec![];
            let mut time = -(tape.below(3) as i32);
            for _ in 0..n {
                if tape.chance(1, 3) { time += *tape.pick(&[1, 10, 100]); }
                let which = tape.below(8);
                let (opcode, blob, mask): (u16, Vec<u8>, u16) = match which {
                    0..=3 => {
                        let (op, sig) = tape.pick(&sigs[..4]).clone();
                        let mut blob = vec![]; let mut mask = 0u16; let mut bit = 0;
                        let mut rest = sig.as_str();
                        while !rest.is_empty() {
                            let ch = rest.chars().next().unwrap();
                            rest = &rest[1..];
                            if rest.starts_with('(') { let e = rest.find(')').unwrap(); rest = &rest[e + 1..]; }
                            let size = match ch { 's' | 'u' => 2, 'b' | 'c' => 1, _ => 4 };
                            let v: u32 = if ch == 'f' { if known.has("nan-payload-lost") { let c = *tape.pick(&classes); if f32::from_bits(c).is_nan() { 0x7fc00000 } else { c } } else if tape.chance(1, 8) { tape.raw() } else { *tape.pick(&classes) } }
                                         else { *tape.pick(&[0u32, 1, 0xffffffff, 0x7fffffff, 0x80000000, 255, 256, 0xfffe, 0x8000, 0x80, 10000, 0xfffffffd]) };
                            // unsigned / hex dwords >= 2^31 decompile to literals >= 2^31 (known finding: their reprint is not idempotent)
                            let v = if known.has("reprint-of-literal-ge-2^31") && size == 4 && matches!(ch, 'U' | 'C') && v >= 0x80000000 { v & 0x7fffffff } else { v };
                            if tape.chance(1, 6) && ch != 'f' && size == 4 && !sig.contains("imm") { mask |= 1 << bit; blob.extend((1000 + tape.below(8) as i32).to_le_bytes()); } else { blob.extend(&v.to_le_bytes()[..size]); }
                            bit += 1;
                        }
                        (op, blob, mask)
                    }
                    4 => { let s = *tape.pick(&["", "abc", "日本語", "a\"b\\c", "line\nbreak"]); let mut b = crate::model::codec::sjis_encode(s).unwrap(); b.push(0); while b.len() % 4 != 0 { b.push(0); } (404, b, 0) }
                    5 => { let nb = 4 * tape.below(4); let blob: Vec<u8> = (0..nb).map(|_| tape.raw() as u8).collect(); (450 + tape.below(3) as u16, blob, if tape.chance(1, 3) { tape.raw() as u16 & 7 } else { 0 }) }   // unknown signature
                    6 if !known.has("unary-minus-negative-literal") => {
                        // a unary-operator intrinsic applied to a literal: `x = -(-3)`, `y = -(-0.0)`, `x = ~(-1)`, `y = sin(-1.5)` ...
                        let k = tape.below(5);
                        let float = k == 1 || k == 4;
                        let lit: u32 = if float { *tape.pick(&classes) } else { *tape.pick(&[0u32, 1, 3, 0xffffffff, 0xfffffffd, 0x7fffffff, 0x80000000, 0x80000001]) };
                        let lit = if float && f32::from_bits(lit).is_nan() { 0x80000000 } else { lit };
                        let lit = if known.has("reprint-of-literal-ge-2^31") && !float && lit == 0x80000000 { 0x80000001 } else { lit };
                        let reg: i32 = if float { 1004 } else { 1000 };
                        let mut b = vec![]; if float { b.extend((reg as f32).to_le_bytes()); } else { b.extend(reg.to_le_bytes()); } b.extend(lit.to_le_bytes());
                        (460 + k as u16, b, 1)
                    }
                    _ => (200, (tape.below(100) as i32 - 50).to_le_bytes().to_vec(), 0),
                };
                let difficulty = if tape.chance(1, 6) { *tape.pick(&[0x01u8, 0x0e, 0xf0, 0x3c]) } else { 0xff };
                instrs.push(json!({"time": time, "opcode": opcode, "mask": mask, "blob": blob, "difficulty": difficulty}));
            }
            json!({"mode": "D", "spec": spec.to_json(), "sigs": sigs, "instrs": instrs, "wseed": wseed, "unary_intrinsic": !known.has("unary-minus-negative-literal") && tape.chance(1, 4)})
        }
    }

    fn check(&self, case: &Value, ctx: &mut CheckCtx) -> Outcome {
        let tier = if ctx.strict { Tier::Quick } else { Tier::Quick };
        let ws = widths(if case["all_widths"] == true { Tier::Thorough } else { tier }, case["wseed"].as_u64().unwrap_or(0));
        if case["mode"] == "P" {
            ctx.label("P");
            for f in case["features"].as_array().cloned().unwrap_or_default() { ctx.label(format!("feat:{}", f.as_str().unwrap())); }
            let text = case["text"].as_str().unwrap();
            let x = match parse_file(text) { Ok(x) => x, Err(d) => return Outcome::Discard(format!("generated text rejected by the parser: {}", d.lines().next().unwrap_or(""))) };
            return match check_p_file(&x, &ws, ctx, "P") { None => Outcome::Pass, Some(f) => Outcome::Fail(Failure::new(f.signature, format!("{}\n--- source:\n{}", f.message, text.chars().take(2000).collect::<String>()))) };
        }
        ctx.label("D");
        let mut spec = LangSpec::from_json(&case["spec"]);
        for s in case["sigs"].as_array().unwrap() { spec.sigs.insert(s[0].as_u64().unwrap() as u16, s[1].as_str().unwrap().to_string()); }
        {
            use crate::gen::prog::Ty;
            for (op, sig, name, ty) in [(460u16, "SS", "-", Ty::Int), (461, "ff", "-", Ty::Float), (462, "SS", "!", Ty::Int), (463, "SS", "~", Ty::Int), (464, "ff", "sin", Ty::Float)] {
                spec.sigs.insert(op, sig.into()); spec.intrinsics.insert(op, Intr::UnOp(name.into(), ty));
            }
        }
        let hooks = spec.hooks();
        let instrs: Vec<MInstr> = case["instrs"].as_array().unwrap().iter().map(|i| MInstr { time: i["time"].as_i64().unwrap() as i32, opcode: i["opcode"].as_u64().unwrap() as u16, mask: i["mask"].as_u64().unwrap() as u16,
            blob: i["blob"].as_array().unwrap().iter().map(|b| b.as_u64().unwrap() as u8).collect(), difficulty: i["difficulty"].as_u64().unwrap() as u8 }).collect();
        let mut instrs = instrs;
        if case["unary_intrinsic"] == true { let mut b = vec![]; b.extend(1000i32.to_le_bytes()); b.extend((-3i32).to_le_bytes()); instrs.push(MInstr { time: instrs.last().map(|i| i.time).unwrap_or(0), opcode: 460, mask: 1, blob: b, difficulty: 0xff }); }
        if instrs.iter().any(|i| i.opcode >= 450 && i.opcode < 460) { ctx.label("D:blob"); }
        if instrs.iter().any(|i| i.opcode >= 460 && i.opcode <= 464) { ctx.label("D:unary_op_on_literal"); }
        // decompile (block recovery on), then run the D checks
        let x = match tx::with_truth(|truth| -> Result<ast::Block, Outcome> {
            truth.apply_mapfile_str(&spec.mapfile_text(), truth::Game::Th10).map_err(|e| { e.ignore(); Outcome::Discard("mapfile rejected".into()) })?;
            let stmts = tx::raise_flat(truth, &hooks, &tx::from_minstrs(&instrs), &Default::default()).map_err(|_| { let d = tx::diags(truth); if tx::has_error_diag(&d) { Outcome::Discard("raise-error".into()) } else { Outcome::Fail(Failure::new("c08:raise-err-without-diagnostic", "")) } })?;
            tx::postprocess(truth, stmts, true).map_err(|_| Outcome::Discard("postprocess-error".into()))
        }) { Ok(x) => x, Err(o) => return o };
        let tr = literal_trace(&x);
        if tr.iter().any(|l| l.starts_with("i-")) { ctx.label("D:negative_literal"); }
        if tr.iter().any(|l| l.starts_with('f') && l != "f3f800000") { ctx.label("D:float_classes"); }
        let wide = match tx::format_at(&x, 1000) { Ok(s) => s, Err(e) => return Outcome::Fail(Failure::new("c08:format-error", e)) };
        let x1000 = match parse_block(&wide) { Ok(y) => y, Err(d) => return Outcome::Fail(Failure::new("c08:D:printed-text-does-not-parse", format!("width 1000\n{}\n{}", d.chars().take(800).collect::<String>(), wide.chars().take(3000).collect::<String>()))) };
        for &w in &ws {
            ctx.sub_evals += 1;
            let s = match tx::format_at(&x, w) { Ok(s) => s, Err(e) => return Outcome::Fail(Failure::new("c08:format-error", e)) };
            if s != wide { ctx.label("wrapped"); ctx.nontrivial(); }
            let y = match parse_block(&s) { Ok(y) => y, Err(d) => return Outcome::Fail(Failure::new("c08:D:printed-text-does-not-parse", format!("width {}\n{}\n{}", w, d.chars().take(800).collect::<String>(), s.chars().take(3000).collect::<String>()))) };
            let (mut yf, mut xf) = (y.clone(), x1000.clone());
            tx::fold_literal_signs(&mut yf); tx::fold_literal_signs(&mut xf);
            if yf != xf || literal_trace(&yf) != literal_trace(&xf) { return Outcome::Fail(Failure::new("c08:D:width-changes-the-script", format!("width {}\n{}\n--- width 1000:\n{}", w, s.chars().take(3000).collect::<String>(), wide.chars().take(3000).collect::<String>()))); }
        }
        // the parsed form is in P: run the P checks on it
        match check_p_block(&x1000, &ws, ctx, "D-reparsed") { None => Outcome::Pass, Some(f) => Outcome::Fail(f) }
    }
}
