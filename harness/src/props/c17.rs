//! C17 — extracting images and compiling them back reproduces the embedded textures.
use serde_json::{json, Value};
use crate::engine::*;
use crate::files::{self, Fmt, ImageSrc};
use crate::tx;

pub struct C17;

fn bpp(format: u32) -> usize { match format { 1 => 4, 3 | 5 => 2, _ => 1 } }

fn xorshift(seed: u64) -> impl FnMut() -> u32 { let mut x = seed.wrapping_mul(0x9E3779B97F4A7C15) | 1; move || { x ^= x << 13; x ^= x >> 7; x ^= x << 17; (x >> 24) as u32 } }

/// Pixel data for an entry: `style` 0 = pseudo-random, 1 = consecutive values starting at `start` (exhaustive sweeps), 2 = boundary values
pub fn pixel_data(format: u32, w: usize, h: usize, style: u64, seed: u64) -> Vec<u8> {
    let n = w * h;
    let mut rnd = xorshift(seed + 1);
    let mut out = Vec::with_capacity(n * bpp(format));
    for i in 0..n {
        let v: u32 = match style { 1 => (seed as u32).wrapping_add(i as u32), 2 => *[0u32, 0xffff_ffff, 0x8000_0000, 0x00ff_ffff, 0xff00_0000, 0x0001_0001, 0x7fff_7fff, 0xf0f0_0f0f].get(i % 8).unwrap(), _ => rnd() << 8 ^ rnd() };
        match bpp(format) { 4 => out.extend_from_slice(&v.to_le_bytes()), 2 => out.extend_from_slice(&(v as u16).to_le_bytes()), _ => out.push(v as u8) }
    }
    out
}

/// (offset of "THTX", total section length) for every texture section of an ANM binary
pub fn thtx_sections(b: &[u8]) -> Vec<(usize, usize)> {
    let mut out = vec![];
    let mut i = 0;
    while i + 16 <= b.len() {
        if &b[i..i + 4] == b"THTX" {
            let size = u32::from_le_bytes([b[i + 12], b[i + 13], b[i + 14], b[i + 15]]) as usize;
            if i + 16 + size <= b.len() { out.push((i, 16 + size)); i += 16 + size; continue; }
        }
        i += 4; // sections are dword aligned
    }
    out
}

struct EntrySpec { path: String, format: u32, w: usize, h: usize, ox: usize, oy: usize }

fn source_text(game: &str, entries: &[EntrySpec], has_data: &str) -> String {
    let g = files::game_from_str(game);
    let mut s = String::new();
    for (i, e) in entries.iter().enumerate() {
        let offs = if g >= truth::Game::Th11 && (e.ox > 0 || e.oy > 0) { format!("    offset_x: {},\n    offset_y: {},\n", e.ox, e.oy) } else { String::new() };
        s.push_str(&format!("entry {{\n    path: \"{}\",\n    has_data: {},\n    img_width: {},\n    img_height: {},\n    img_format: {},\n    rt_width: {},\n    rt_height: {},\n    rt_format: {},\n{}    sprites: {{sprite{}: {{x: 0.0, y: 0.0, w: 1.0, h: 1.0}}}},\n}}\n\n", e.path, has_data, e.w, e.h, e.format, (e.w + e.ox).next_power_of_two(), (e.h + e.oy).next_power_of_two(), e.format, offs, i));
    }
    s
}

fn compile(game: &str, text: &str, sources: Vec<ImageSrc>) -> Result<Vec<u8>, String> {
    let g = files::game_from_str(game);
    tx::with_truth(|truth| files::compile_file(truth, Fmt::Anm, g, text.as_bytes(), &[], sources).map(|c| c.bytes).map_err(|s| format!("{:?}: {}", s, tx::diags(truth))))
}

impl Property for C17 {
    fn id(&self) -> &'static str { "C17" }
    fn rule(&self) -> &'static str {
        "ANM files (TH06..TH18) with 1..3 embedded textures in formats ARGB8888 / RGB565 / ARGB4444 / GRAY8, dimensions 1..64 (thorough: all of 1..64 x 1..64 sampled; 256x256 sweeps holding every 16-bit value and every 8-bit value), image offsets 0..8 (TH11+), pixel data random / consecutive / boundary values, built by compiling a source with placeholder images and overwriting the THTX data: (a) extract to a directory, recompile the decompiled text with that directory as image source: every THTX section and the whole file are identical; (b) recompile with the ANM itself as image source: identical; (c) two or three sources (ANM files and directories) supplying the same paths with different pixels, in every order: the last source's pixels are written; (d) 2..5 entries whose paths come from a pool of two names (one path occurs up to 5 times, interleaved with the other), ANM source: textures are matched in order of appearance. non-trivial = at least one texture compared"
    }
    fn tape_len(&self, _tier: Tier) -> usize { 60 }
    fn cases(&self, tier: Tier) -> u32 { tier.pick(40_000, 1_000_000) }
    fn required_labels(&self, _tier: Tier) -> Vec<&'static str> { vec!["format:1", "format:3", "format:5", "format:7", "offset", "dir-roundtrip", "anm-source", "precedence", "precedence-format", "shared-path", "shared-path>=3", "multi-entry", "exhaustive-16bit"] }
    fn max_discard_fraction(&self) -> f64 { 0.05 }

    fn fixed_cases(&self, _tier: Tier, _known: &Known) -> Vec<Value> {
        // exhaustive sweeps: every 16-bit pixel value in both 16-bit formats, every 8-bit value in GRAY8, in one 256x256 (16x16) texture
        let mut out = vec![];
        for game in ["th08", "th12", "th17"] {
            for format in [3u32, 5] { out.push(json!({"mode": "roundtrip", "game": game, "entries": [{"path": "all.png", "format": format, "w": 256, "h": 256, "ox": 0, "oy": 0, "style": 1, "seed": 0}], "exhaustive": true})); }
            out.push(json!({"mode": "roundtrip", "game": game, "entries": [{"path": "all.png", "format": 7, "w": 16, "h": 16, "ox": 0, "oy": 0, "style": 1, "seed": 0}], "exhaustive": true}));
            out.push(json!({"mode": "roundtrip", "game": game, "entries": [{"path": "all.png", "format": 1, "w": 8, "h": 8, "ox": 0, "oy": 0, "style": 2, "seed": 0}]}));
        }
        out
    }

    fn generate(&self, tape: &mut Tape, _tier: Tier, _known: &Known) -> Value {
        let game = *tape.pick(&["th12", "th06", "th07", "th08", "th10", "th14", "th18", "th11"]);
        let mode = *tape.pick(&["roundtrip", "roundtrip", "precedence", "shared-path", "precedence-format"]);
        // shared-path: 2..5 entries whose paths come from a pool of two names, so one path occurs 2, 3, 4 or 5 times, possibly interleaved with the other
        let n = if mode == "shared-path" { *tape.pick(&[2usize, 3, 4, 3, 5]) } else { 1 + tape.below(3) };
        let entries: Vec<Value> = (0..n).map(|i| {
            let path = if mode == "shared-path" { if i < 2 || tape.chance(3, 4) { "same.png".to_string() } else { "other.png".to_string() } } else { format!("{}img{}.png", if tape.chance(1, 3) { "sub/" } else { "" }, i) };
            let format = *tape.pick(&[1u32, 3, 5, 7]);
            let w = 1 + tape.below(64);
            let hmax = if tape.bool() { 8 } else { 64 };
            let h = 1 + tape.below(hmax);
            let ox = if tape.chance(1, 3) { tape.below(9) } else { 0 };
            let oy = if tape.chance(1, 3) { tape.below(9) } else { 0 };
            let style = tape.below(3);
            let seed = tape.raw();
            json!({"path": path, "format": format, "w": w, "h": h, "ox": ox, "oy": oy, "style": style, "seed": seed})
        }).collect();
        // precedence: which sources, in which order (A = anm with the original pixels, B = anm with other pixels, D = directory extracted from A, E = directory extracted from B)
        let order: Vec<&str> = { let mut v = vec!["A", "B", "D", "E"]; for i in (1..v.len()).rev() { let j = tape.below(i + 1); v.swap(i, j); } v.truncate(2 + tape.below(2)); v };
        // precedence-format: the ANM sources differ in pixel format too, and the script leaves the image metadata to the sources
        let alt_formats: Vec<Vec<u32>> = (0..3).map(|_| (0..n).map(|_| *tape.pick(&[1u32, 3, 5, 7])).collect()).collect();
        let nsrc = 2 + tape.below(2);
        json!({"mode": mode, "game": game, "entries": entries, "order": order, "alt_formats": alt_formats, "nsrc": nsrc})
    }

    fn check(&self, case: &Value, ctx: &mut CheckCtx) -> Outcome {
        let game = case["game"].as_str().unwrap();
        let g = files::game_from_str(game);
        let mode = case["mode"].as_str().unwrap_or("roundtrip");
        let specs: Vec<EntrySpec> = case["entries"].as_array().unwrap().iter().map(|e| EntrySpec { path: e["path"].as_str().unwrap().to_string(), format: e["format"].as_u64().unwrap() as u32, w: e["w"].as_u64().unwrap() as usize, h: e["h"].as_u64().unwrap() as usize, ox: if g >= truth::Game::Th11 { e["ox"].as_u64().unwrap_or(0) as usize } else { 0 }, oy: if g >= truth::Game::Th11 { e["oy"].as_u64().unwrap_or(0) as usize } else { 0 } }).collect();
        for s in &specs { ctx.label(format!("format:{}", s.format)); if s.ox > 0 || s.oy > 0 { ctx.label("offset"); } }
        if specs.len() > 1 { ctx.label("multi-entry"); }
        if case["exhaustive"] == true { ctx.label("exhaustive-16bit"); }
        let fail = |sig: &str, msg: String| Outcome::Fail(Failure::new(format!("c17:{}", sig), format!("game {}: {}\n--- case: {}", game, msg, case.to_string().chars().take(600).collect::<String>())));

        // 1. a file with placeholder images, then the real pixels
        let dummy_text = source_text(game, &specs, "\"dummy\"");
        let base = match compile(game, &dummy_text, vec![]) { Ok(b) => b, Err(e) => return Outcome::Discard(format!("placeholder source rejected: {}", e.chars().take(80).collect::<String>())) };
        let secs = thtx_sections(&base);
        if secs.len() != specs.len() { return fail("harness-thtx-scan", format!("{} THTX sections found for {} entries", secs.len(), specs.len())); }
        let make = |salt: u64| -> Vec<u8> {
            let mut b = base.clone();
            for ((off, len), (s, e)) in secs.iter().zip(specs.iter().zip(case["entries"].as_array().unwrap())) {
                let data = pixel_data(s.format, s.w, s.h, e["style"].as_u64().unwrap_or(0), e["seed"].as_u64().unwrap_or(0).wrapping_add(salt));
                assert_eq!(data.len() + 16, *len, "placeholder image has a different size than the harness's model");
                b[off + 16..off + len].copy_from_slice(&data);
            }
            b
        };
        let a = make(0);
        let b2 = make(0x1234_5678);
        let dir = std::path::PathBuf::from(format!("/dev/shm/tv-c17-{}", std::process::id()));
        let _ = std::fs::remove_dir_all(&dir);
        let extract = |bytes: &[u8], sub: &str| -> Result<std::path::PathBuf, String> {
            let d = dir.join(sub); let _ = std::fs::create_dir_all(&d);
            tx::with_truth(|truth| files::extract_images(truth, g, bytes, &d).map_err(|_| tx::diags(truth)))?;
            Ok(d)
        };
        // the text to recompile: the decompiled file (has_data: true, image metadata from the THTX header)
        let text = match tx::with_truth(|truth| files::decompile_file(truth, Fmt::Anm, g, &a, &truth::DecompileOptions::new(), &[]).map_err(|_| tx::diags(truth)).and_then(|f| tx::format_at(&f, 100))) { Ok(t) => t, Err(e) => { let _ = std::fs::remove_dir_all(&dir); return fail("decompile-failed", e); } };
        let sections_equal = |x: &[u8], y: &[u8]| -> Option<String> {
            let (sx, sy) = (thtx_sections(x), thtx_sections(y));
            if sx.len() != sy.len() { return Some(format!("{} texture sections vs {}", sx.len(), sy.len())); }
            for (i, ((ox, lx), (oy, ly))) in sx.iter().zip(&sy).enumerate() { if x[*ox..ox + lx] != y[*oy..oy + ly] { let first = x[*ox..ox + lx].iter().zip(&y[*oy..oy + ly]).position(|(p, q)| p != q).unwrap_or(0); return Some(format!("texture #{} differs at byte {} of its THTX section (lengths {} / {})", i, first, lx, ly)); } }
            None
        };
        let result = (|| -> Result<(), Outcome> {
            match mode {
                "roundtrip" => {
                    let d = extract(&a, "A").map_err(|e| fail("extract-failed", e))?;
                    let r = compile(game, &text, vec![ImageSrc::Dir(d)]).map_err(|e| fail("recompile-from-directory-failed", e))?;
                    ctx.label("dir-roundtrip"); ctx.nontrivial();
                    if let Some(m) = sections_equal(&a, &r) { return Err(fail("dir-roundtrip-texture-differs", m)); }
                    if r != a { return Err(fail("dir-roundtrip-file-differs", "textures equal but the files differ".into())); }
                    let r = compile(game, &text, vec![ImageSrc::AnmBytes(a.clone())]).map_err(|e| fail("recompile-from-anm-failed", e))?;
                    ctx.label("anm-source");
                    if r != a { return Err(fail("anm-source-not-verbatim", sections_equal(&a, &r).unwrap_or("files differ outside the textures".into()))); }
                }
                "precedence" => {
                    let order: Vec<String> = case["order"].as_array().unwrap().iter().map(|x| x.as_str().unwrap().to_string()).collect();
                    let da = extract(&a, "A").map_err(|e| fail("extract-failed", e))?;
                    let db = extract(&b2, "B").map_err(|e| fail("extract-failed", e))?;
                    let sources: Vec<ImageSrc> = order.iter().map(|o| match o.as_str() { "A" => ImageSrc::AnmBytes(a.clone()), "B" => ImageSrc::AnmBytes(b2.clone()), "D" => ImageSrc::Dir(da.clone()), _ => ImageSrc::Dir(db.clone()) }).collect();
                    let r = compile(game, &text, sources).map_err(|e| fail("recompile-with-several-sources-failed", e))?;
                    ctx.label("precedence"); ctx.nontrivial();
                    let expect = if matches!(order.last().unwrap().as_str(), "A" | "D") { &a } else { &b2 };
                    if let Some(m) = sections_equal(expect, &r) { return Err(fail("last-source-does-not-win", format!("sources {:?}: {}", order, m))); }
                }
                "precedence-format" => {
                    // 2..3 ANM sources with the same paths and dimensions but their own pixel formats and pixels; the script gives
                    // no image metadata, so everything comes from the sources: the last source's textures must be copied verbatim
                    let nsrc = case["nsrc"].as_u64().unwrap_or(2) as usize;
                    let mut srcs: Vec<Vec<u8>> = vec![];
                    for k in 0..nsrc {
                        let fk: Vec<u32> = case["alt_formats"][k].as_array().unwrap().iter().map(|x| x.as_u64().unwrap() as u32).collect();
                        let sp: Vec<EntrySpec> = specs.iter().zip(&fk).map(|(s, f)| EntrySpec { path: s.path.clone(), format: *f, w: s.w, h: s.h, ox: s.ox, oy: s.oy }).collect();
                        let t = source_text(game, &sp, "\"dummy\"");
                        let mut b = compile(game, &t, vec![]).map_err(|e| fail("harness-source-rejected", e))?;
                        for ((off, len), (s2, e)) in thtx_sections(&b).iter().zip(sp.iter().zip(case["entries"].as_array().unwrap())) {
                            let data = pixel_data(s2.format, s2.w, s2.h, e["style"].as_u64().unwrap_or(0), e["seed"].as_u64().unwrap_or(0).wrapping_add(1000 * k as u64));
                            b[off + 16..off + len].copy_from_slice(&data);
                        }
                        srcs.push(b);
                    }
                    let g2 = files::game_from_str(game);
                    let mut bare = String::new();
                    for (i, e) in specs.iter().enumerate() {
                        let offs = if g2 >= truth::Game::Th11 && (e.ox > 0 || e.oy > 0) { format!("    offset_x: {},\n    offset_y: {},\n", e.ox, e.oy) } else { String::new() };
                        bare.push_str(&format!("entry {{\n    path: \"{}\",\n    has_data: true,\n{}    sprites: {{sprite{}: {{x: 0.0, y: 0.0, w: 1.0, h: 1.0}}}},\n}}\n\n", e.path, offs, i));
                    }
                    let r = compile(game, &bare, srcs.iter().map(|b| ImageSrc::AnmBytes(b.clone())).collect()).map_err(|e| fail("recompile-with-several-sources-failed", e))?;
                    ctx.label("precedence-format"); ctx.nontrivial();
                    if let Some(m) = sections_equal(srcs.last().unwrap(), &r) { return Err(fail("last-anm-source-not-copied-verbatim", format!("{} ANM sources with formats {}: {}", nsrc, case["alt_formats"], m))); }
                }
                _ => {
                    // several entries, one path, different pixels (and possibly different sizes): the ANM source matches them in order of appearance
                    let r = compile(game, &text, vec![ImageSrc::AnmBytes(a.clone())]).map_err(|e| fail("recompile-from-anm-failed", e))?;
                    ctx.label("shared-path"); ctx.nontrivial();
                    if specs.iter().filter(|s| s.path == "same.png").count() >= 3 { ctx.label("shared-path>=3"); }
                    if let Some(m) = sections_equal(&a, &r) { return Err(fail("shared-path-order", m)); }
                }
            }
            Ok(())
        })();
        let _ = std::fs::remove_dir_all(&dir);
        match result { Ok(()) => Outcome::Pass, Err(o) => o }
    }
}
