//! C02 — compiling expressions and statements preserves behaviour.
//! Oracle: AstVm on the flattened source vs M-machine on the emitted raw instructions.
use std::collections::BTreeMap;
use serde_json::{json, Value};
use crate::engine::*;
use crate::gen::{body::*, lang::*, prog::*};
use crate::model::{machine::*, ops::Val};
use crate::tx;

pub struct C02;

pub fn val_to_json(v: Val) -> Value { match v { Val::I(x) => json!({"i": x}), Val::F(x) => json!({"f": x.to_bits()}) } }
pub fn val_from_json(v: &Value) -> Val { if let Some(i) = v.get("i") { Val::I(i.as_i64().unwrap() as i32) } else { Val::F(f32::from_bits(v["f"].as_u64().unwrap() as u32)) } }

pub fn valuations_to_json(vs: &[Vec<(i32, Val)>]) -> Value { json!(vs.iter().map(|v| v.iter().map(|(id, x)| json!([id, val_to_json(*x)])).collect::<Vec<_>>()).collect::<Vec<_>>()) }
pub fn valuations_from_json(v: &Value) -> Vec<BTreeMap<i32, Val>> {
    v.as_array().map(|a| a.iter().map(|one| one.as_array().unwrap().iter().map(|p| (p[0].as_i64().unwrap() as i32, val_from_json(&p[1]))).collect()).collect()).unwrap_or_default()
}

/// Compare a reference run with a machine run.  `regs_to_check`: registers whose final value must agree.
pub fn compare_runs(vm: &tx::VmRun, m: &Machine, regs_to_check: &[i32]) -> Option<String> { compare_runs2(vm, m, regs_to_check).map(|x| x.1) }

/// Returns (differing register if the difference is a final register value, description).
pub fn compare_runs2(vm: &tx::VmRun, m: &Machine, regs_to_check: &[i32]) -> Option<(Option<i32>, String)> {
    let r = compare_runs_inner(vm, m, regs_to_check)?;
    Some(r)
}

fn compare_runs_inner(vm: &tx::VmRun, m: &Machine, regs_to_check: &[i32]) -> Option<(Option<i32>, String)> {
    if vm.log.len() != m.log.len() {
        return Some((None, format!("call log length differs: source {} vs compiled {}\n source: {:?}\n compiled: {:?}", vm.log.len(), m.log.len(), show_log_vm(&vm.log), show_log_m(&m.log))));
    }
    for (i, (a, b)) in vm.log.iter().zip(m.log.iter()).enumerate() {
        let same = a.0 == b.real_time && a.1 == b.opcode && a.2.len() == b.args.len() && a.2.iter().zip(b.args.iter()).all(|(x, y)| x.same(*y));
        if !same { return Some((None, format!("call #{} differs: source ({}, ins_{}, {:?}) vs compiled ({}, ins_{}, {:?})", i, a.0, a.1, a.2.iter().map(|v| v.show()).collect::<Vec<_>>(), b.real_time, b.opcode, b.args.iter().map(|v| v.show()).collect::<Vec<_>>()))); }
    }
    if vm.time != m.time { return Some((None, format!("final time differs: source {} vs compiled {}", vm.time, m.time))); }
    if vm.real_time != m.real_time { return Some((None, format!("final real_time differs: source {} vs compiled {}", vm.real_time, m.real_time))); }
    for r in regs_to_check {
        match (vm.regs.get(r), m.regs.get(r)) {
            (Some(a), Some(b)) => if !a.same(*b) { return Some((Some(*r), format!("final value of REG[{}] differs: source {} vs compiled {}", r, a.show(), b.show()))); },
            _ => {}
        }
    }
    None
}
fn show_log_vm(l: &[(i32, u16, Vec<Val>)]) -> Vec<String> { l.iter().map(|(t, o, a)| format!("{}:ins_{}({})", t, o, a.iter().map(|v| v.show()).collect::<Vec<_>>().join(","))).collect() }
fn show_log_m(l: &[Call]) -> Vec<String> { l.iter().map(|c| format!("{}:ins_{}({})", c.real_time, c.opcode, c.args.iter().map(|v| v.show()).collect::<Vec<_>>().join(","))).collect() }

pub fn gen_case(tape: &mut Tape, cfg: BodyCfg, knobs: &LangKnobs) -> Value {
    let spec = gen_lang(tape, knobs);
    let (body, usable) = { let mut g = BodyGen::new(tape, &spec, cfg); let b = g.body(); (b, g.usable.clone()) };
    let _ = usable;
    let text = format!("{{\n{}}}\n", print_body(&body));
    let vals: Vec<Vec<(i32, Val)>> = gen_valuations(tape, &spec, 8);
    let mentioned: Vec<i32> = mentioned_regs(&body).into_iter().collect();
    let mentioned_plain: Vec<i32> = mentioned_regs_outside_diff_switch(&body).into_iter().collect();
    json!({"spec": spec.to_json(), "text": text, "valuations": valuations_to_json(&vals), "mentioned": mentioned, "mentioned_plain": mentioned_plain, "mentioned_live": mentioned_regs_live(&body).into_iter().collect::<Vec<i32>>(), "stmts": count_stmts(&body),
           "features": if body_has_nested_diff_switch(&body) { vec!["nested_diff_switch"] } else { vec![] }})
}

impl Property for C02 {
    fn id(&self) -> &'static str { "C02" }
    fn rule(&self) -> &'static str {
        "generated register-language configuration (intrinsic set, argument orders, padding, scratch pool sizes) + typed program body (expressions, locals, casts, ternaries, difficulty switches/labels, assignment ops, structured and raw control flow, time labels) x 8 register valuations (difficulty = index mod 4); non-trivial = lowering allocated a temporary/local, expanded a difficulty switch, or emitted more instructions than source statements; distinct by full case text"
    }
    fn tape_len(&self, tier: Tier) -> usize { tier.pick(400, 700) }
    fn cases(&self, tier: Tier) -> u32 { tier.pick(150000, 3000000) }
    fn required_labels(&self, _tier: Tier) -> Vec<&'static str> { vec!["has_temp", "diff_expanded", "two_part_condjmp", "loop_executed"] }

    fn generate(&self, tape: &mut Tape, _tier: Tier, known: &Known) -> Value {
        let mut cfg = BodyCfg::full();
        cfg.explicit_jump_times = true;
        cfg.exclude_reg_in_diff_switch = known.has("c05-reg-in-diff-switch");
        cfg.nested_diff_switch = !known.has("nested-diff-switch");
        cfg.const_ternary_cond = !known.has("reg-mention-eliminated");
        let knobs = LangKnobs { pad_intrinsics: if known.has("intrinsic-interior-padding") { 1 } else { 2 }, rich: true, anti_scratch: false };
        gen_case(tape, cfg, &knobs)
    }

    fn check(&self, case: &Value, ctx: &mut CheckCtx) -> Outcome {
        let spec = LangSpec::from_json(&case["spec"]);
        let text = case["text"].as_str().unwrap();
        let vals = valuations_from_json(&case["valuations"]);
        let mentioned: Vec<i32> = case["mentioned"].as_array().map(|a| a.iter().map(|x| x.as_i64().unwrap() as i32).collect()).unwrap_or_default();
        let hooks = spec.hooks();
        tx::with_truth(|truth| {
            let compiled = match tx::compile_body(truth, &spec, &hooks, text, tx::PipeOpts::default()) {
                Ok(c) => c,
                Err(stage) => {
                    let d = tx::diags(truth);
                    let why = if d.contains("script too complex") { "too-complex".to_string() } else if d.contains("not supported") { "unsupported".into() } else { format!("{:?}", stage) };
                    if !tx::has_error_diag(&d) { return Outcome::Fail(Failure::new("c02:err-without-diagnostic", format!("compile failed at {:?} without an error diagnostic", stage))); }
                    ctx.label(format!("discard:{}", why));
                    return Outcome::Discard(format!("compile-error:{}", why));
                }
            };
            let d = tx::diags(truth);
            if !d.is_empty() { return Outcome::Discard("compile-warnings".into()); }
            let minstrs = tx::to_minstrs(&compiled.instrs);
            let Ok(flat_raw) = tx::to_raw(truth, &compiled.flat) else { return Outcome::Discard("aliases_to_raw failed".into()); };

            // labels / non-triviality
            let nlocals = compiled.info.as_ref().map(|i| i.register_info.locals.len()).unwrap_or(0);
            let has_temp = compiled.info.as_ref().map(|i| i.register_info.locals.iter().any(|l| l.name.contains("temp"))).unwrap_or(false);
            let diff_expanded = minstrs.iter().any(|i| i.difficulty != 0xFF);
            let nstmts = case["stmts"].as_u64().unwrap_or(0) as usize;
            if has_temp { ctx.label("has_temp"); }
            if nlocals > 0 { ctx.label("has_local"); }
            if diff_expanded { ctx.label("diff_expanded"); }
            if minstrs.iter().any(|i| matches!(spec.intrinsics.get(&i.opcode), Some(Intr::Cmp(_)))) { ctx.label("two_part_condjmp"); }
            if minstrs.iter().any(|i| matches!(spec.intrinsics.get(&i.opcode), Some(Intr::CountJmp(_)))) { ctx.label("count_jmp"); }
            if nlocals > 0 || diff_expanded || minstrs.len() > nstmts + 1 { ctx.nontrivial(); }

            // registers whose final value must agree: mentioned in the source, or not available as scratch
            let mut check_regs: Vec<i32> = spec.regs.iter().filter(|r| !r.scratch || mentioned.contains(&r.id)).map(|r| r.id).collect();
            check_regs.sort();

            let mut compared = 0;
            for (i, val) in vals.iter().enumerate() {
                let difficulty = (i % 4) as u32;
                ctx.sub_evals += 1;
                let vm = match tx::run_vm(truth, &flat_raw, val, difficulty, 20000) {
                    tx::VmStop::Done(r) => r,
                    tx::VmStop::IterLimit => { ctx.label("vm-iter-limit"); continue; }
                    tx::VmStop::Panic(msg) => { ctx.label("vm-panic"); return Outcome::Discard(format!("vm-panic:{}", msg.chars().take(60).collect::<String>())); }
                };
                let mut m = Machine::new(val.clone());
                let stop = m.run(&spec, &minstrs, difficulty, 4, 2_000_000);
                if m.wild { ctx.label("wild-valuation"); continue; }
                match stop {
                    Stop::End => {}
                    Stop::StepLimit => return Outcome::Fail(Failure::new("c02:compiled-does-not-terminate", format!("valuation {}: source terminates but compiled code exceeded the step limit", i))),
                    Stop::Error(e) => return Outcome::Fail(Failure::new(format!("c02:machine-error:{}", sig_digits(&e)), format!("valuation {}: {}", i, e))),
                }
                if let Some((reg, diff)) = compare_runs2(&vm, &m, &check_regs) {
                    let mentioned_plain: Vec<i32> = case["mentioned_plain"].as_array().map(|a| a.iter().map(|x| x.as_i64().unwrap() as i32).collect()).unwrap_or_default();
                    let after_fold = tx::ast_mentioned_regs(&flat_raw);
                    // classify by root cause first: a register the compiler bound to a local although the source mentions it
                    let bound: Vec<i32> = compiled.info.as_ref().map(|i| i.register_info.locals.iter().map(|l| match l.bound_to { truth::debug_info::LocalBinding::Reg(r) => r }).collect()).unwrap_or_default();
                    let clash: Vec<i32> = bound.iter().copied().filter(|r| mentioned.contains(r)).collect();
                    let _ = reg;
                    let mentioned_live: Vec<i32> = case["mentioned_live"].as_array().map(|a| a.iter().map(|x| x.as_i64().unwrap() as i32).collect()).unwrap_or_else(|| mentioned.clone());
                    let sig = if !clash.is_empty() {
                        if clash.iter().all(|r| !mentioned_live.contains(r)) { "c02:scratch-clobber:reg-mentioned-only-in-eliminated-code".to_string() }
                        else if clash.iter().all(|r| !mentioned_plain.contains(r)) { "c02:scratch-clobber:reg-mentioned-only-in-diff-switch".to_string() }
                        else if clash.iter().all(|r| !after_fold.contains(r)) { "c02:scratch-clobber:reg-mentioned-only-in-folded-code".to_string() }
                        else { "c02:scratch-clobber:mentioned-reg".to_string() }
                    } else if case["features"].as_array().map(|a| a.iter().any(|x| x == "nested_diff_switch")).unwrap_or(false) && diff.starts_with("call") {
                        "c02:nested-diff-switch:call-differs".to_string()
                    } else {
                        format!("c02:behaviour:{}", sig_digits(&diff.split(':').next().unwrap_or("")))
                    };
                    return Outcome::Fail(Failure::new(sig, format!("valuation {} difficulty {}: {}\ncompiled:\n{}", i, difficulty, diff, dump(&minstrs))));
                }
                if m.steps as usize > minstrs.len() { ctx.label("loop_executed"); }
                compared += 1;
            }
            if compared == 0 { return Outcome::Discard("no-comparable-valuation".into()); }
            Outcome::Pass
        })
    }
}

pub fn sig_digits(s: &str) -> String { s.chars().take(40).map(|c| if c.is_ascii_digit() { '#' } else { c }).collect() }

pub fn dump(instrs: &[MInstr]) -> String {
    let mut off = 0;
    let mut out = String::new();
    for i in instrs {
        out.push_str(&format!("  @{:<4} t={:<4} ins_{}(mask={:#b}, diff={:#x}) {}\n", off, i.time, i.opcode, i.mask, i.difficulty, i.blob.chunks(4).map(|c| format!("{:08x}", u32::from_le_bytes([c[0], c.get(1).copied().unwrap_or(0), c.get(2).copied().unwrap_or(0), c.get(3).copied().unwrap_or(0)]))).collect::<Vec<_>>().join(" ")));
        off += 4 + i.blob.len();
    }
    out
}
