//! C13 — every instruction gets exactly the time its labels say.
//! Oracle: M-time (label arithmetic model) vs RawInstr.time after compile; and for the decompile side,
//! M-time applied to the emitted statement list vs the stored times, then re-compile.
use std::collections::BTreeMap;
use serde_json::{json, Value};
use truth::ast;
use crate::engine::*;
use crate::gen::{lang::*, prog::*};
use crate::model::machine::MInstr;
use crate::tx;

pub struct C13;

const TAG_OP: u16 = 200;
const TIMES: &[i32] = &[0, 1, 5, 10, 30, 100, -1, -5, -10, 127, 128, -128, -129, 32767, 32768, -32768, 65535, i32::MAX, i32::MIN, i32::MAX - 1, i32::MIN + 1, 1000];
const DELTAS: &[i32] = &[0, 1, 2, 5, 10, 30, 100, 1000, 65536, i32::MAX, 1 << 30, -1, -3, -10];

struct G<'a, 'b> { tape: &'a mut Tape<'b>, next_tag: i32, expected: Vec<(i32, i32)>, time: i32, consts: Vec<(String, i32)>, budget: usize, labels_at_edge: bool, decrease: bool, crossing: bool, diff_labelled: bool }

impl<'a, 'b> G<'a, 'b> {
    fn tag(&mut self) -> SNode {
        let k = self.next_tag; self.next_tag += 1;
        self.expected.push((k, self.time));
        Stmt::Call { opcode: TAG_OP, name: None, args: vec![Expr::LitI(k)], pseudos: vec![] }.into()
    }
    fn set_time(&mut self, t: i32) {
        if t < self.time { self.decrease = true; }
        if (self.time < 0) != (t < 0) { self.crossing = true; }
        self.time = t;
    }
    fn label(&mut self) -> SNode {
        if self.tape.bool() {
            let t = if self.tape.chance(1, 6) { self.tape.i32_any() } else { *self.tape.pick(TIMES) };
            self.set_time(t);
            Stmt::TimeAbs(t).into()
        } else {
            // relative: literal, const name, or constant expression
            let k = self.tape.below(4);
            let (e, v) = match k {
                0 | 1 => { let d = *self.tape.pick(DELTAS); (Expr::LitI(d), d) }
                2 if !self.consts.is_empty() => { let (n, v) = self.tape.pick(&self.consts).clone(); (Expr::Const(n, Ty::Int), v) }
                _ => {
                    let a = *self.tape.pick(DELTAS); let b = *self.tape.pick(&[1, 2, 3, 7, -1, 65536]);
                    let op = *self.tape.pick(&["+", "*", "-"]);
                    let v = match op { "+" => a.wrapping_add(b), "*" => a.wrapping_mul(b), _ => a.wrapping_sub(b) };
                    (Expr::Bin(op.into(), Box::new(Expr::LitI(a)), Box::new(Expr::LitI(b))), v)
                }
            };
            let t = self.time.wrapping_add(v);
            self.set_time(t);
            Stmt::TimeRel(e).into()
        }
    }
    fn stmts(&mut self, n: usize, depth: usize) -> Vec<SNode> {
        let mut out = vec![];
        for i in 0..n {
            if self.budget == 0 { break; }
            self.budget -= 1;
            let k = self.tape.below(8);
            match k {
                0 | 1 | 2 => out.push(self.tag()),
                3 | 4 => { if i == 0 || i + 1 == n { self.labels_at_edge = true; } out.push(self.label()); }
                5 | 6 if depth > 0 => {
                    let m = 1 + self.tape.below(4);
                    let which = self.tape.below(6);
                    let cond = Expr::Bin("==".into(), Box::new(Expr::Var(VarUse::plain(VarRef::Reg { id: 1010, ty: Some(Ty::Int), alias: None }))), Box::new(Expr::LitI(1)));
                    let s = match which {
                        0 => Stmt::Block(self.stmts(m, depth - 1)),
                        1 => { let a = self.stmts(m, depth - 1); let els = if self.tape.bool() { Some(self.stmts(m, depth - 1)) } else { None }; Stmt::If { arms: vec![(false, cond, a)], els } }
                        2 => Stmt::Loop { body: self.stmts(m, depth - 1) },
                        3 => Stmt::Times { clobber: None, count: Expr::LitI(self.tape.below(3) as i32), body: self.stmts(m, depth - 1) },
                        4 => Stmt::While { cond, body: self.stmts(m, depth - 1) },
                        _ => Stmt::DoWhile { cond, body: self.stmts(m, depth - 1) },
                    };
                    // sometimes the whole structured statement carries a difficulty label (truth warns that this "may have
                    // surprising behavior" for the jumps it generates, but the label rules for times are unaffected)
                    if self.tape.chance(1, 6) { self.diff_labelled = true; out.push(SNode { diff: Some((*self.tape.pick(&["0", "01", "3", "*-0", "012"])).to_string()), kind: s }); } else { out.push(s.into()); }
                }
                _ => out.push(self.tag()),
            }
        }
        out
    }
}

/// M-time over a truth statement list (labels as printed by the decompiler): returns tag -> time.
fn mtime_over_ast(stmts: &[truth::Sp<ast::Stmt>]) -> Result<Vec<(i32, i32)>, String> {
    let mut time = 0i32;
    let mut out = vec![];
    for s in stmts {
        match &s.kind {
            ast::StmtKind::AbsTimeLabel(v) => time = v.value,
            ast::StmtKind::RelTimeLabel { delta, .. } => { let d = delta.as_const_int().ok_or("non-literal relative label")?; time = time.wrapping_add(d); }
            ast::StmtKind::Expr(e) => {
                if let ast::Expr::Call(call) = &e.value {
                    if let ast::CallableName::Ins { opcode, .. } = call.name.value {
                        if opcode == TAG_OP { let k = call.args.get(0).and_then(|a| a.as_const_int()).ok_or("tag argument not literal")?; out.push((k, time)); }
                    }
                }
            }
            _ => {}
        }
    }
    Ok(out)
}

fn tag_times(instrs: &[MInstr]) -> Vec<(i32, i32)> {
    instrs.iter().filter(|i| i.opcode == TAG_OP && i.blob.len() >= 4).map(|i| (i32::from_le_bytes([i.blob[0], i.blob[1], i.blob[2], i.blob[3]]), i.time)).collect()
}

impl Property for C13 {
    fn id(&self) -> &'static str { "C13" }
    fn rule(&self) -> &'static str {
        "(a) compile: sequences of absolute/relative/negative/zero/constant-expression/wrapping time labels interleaved with uniquely tagged instructions, nested in blocks, conditionals and loops; expected time from the label-arithmetic model (M-time); (b) decompile: raw instruction streams with monotone, decreasing, negative->positive, equal-run and extreme stored times (plus jumps whose time argument equals the previous/next/an arbitrary time); emitted labels re-evaluated with M-time and the text recompiled; non-trivial = a decrease, a sign crossing or a label at a block edge"
    }
    fn tape_len(&self, tier: Tier) -> usize { tier.pick(200, 400) }
    fn cases(&self, tier: Tier) -> u32 { tier.pick(200000, 4000000) }
    fn required_labels(&self, _tier: Tier) -> Vec<&'static str> { vec!["compile", "decompile", "decrease", "crossing", "edge_label", "wrapped", "jump", "difficulty-run", "difficulty-labelled-block"] }

    fn generate(&self, tape: &mut Tape, tier: Tier, _known: &Known) -> Value {
        let spec = default_lang();
        if tape.bool() {
            // (a) compile side
            let nconst = tape.below(3);
            let consts: Vec<(String, i32)> = (0..nconst).map(|i| (format!("K{}", i), *tape.pick(DELTAS))).collect();
            let mut g = G { tape, next_tag: 1, expected: vec![], time: 0, consts: consts.clone(), budget: tier.pick(24, 40), labels_at_edge: false, decrease: false, crossing: false, diff_labelled: false };
            let n = 1 + g.tape.below(12);
            let body = g.stmts(n, 3);
            let mut text = String::from("{\n");
            for (n, v) in &consts { text.push_str(&format!("    const int {} = {};\n", n, Expr::LitI(*v).print_top())); }
            text.push_str(&print_body(&body));
            text.push_str("}\n");
            let wrapped = false;
            json!({"mode": "compile", "spec": spec.to_json(), "text": text, "expected": g.expected, "edge_label": g.labels_at_edge, "decrease": g.decrease, "crossing": g.crossing, "wrapped": wrapped, "diff_labelled": g.diff_labelled})
        } else {
            // (b) decompile side: a stream of tagged instructions with stored times, optionally jumps
            let n = 1 + tape.below(14);
            let mode = tape.below(5);
            let mut t: i32 = match mode { 1 => *tape.pick(&[-1, -10, -100]), 3 => *tape.pick(TIMES), _ => 0 };
            let mut instrs: Vec<Value> = vec![];
            let mut times = vec![];
            for k in 0..n {
                match mode {
                    0 => t = t.wrapping_add(*tape.pick(&[0, 0, 1, 5, 10, 100])),                       // monotone with equal runs
                    1 => t = t.wrapping_add(*tape.pick(&[0, 1, 3, 20])),                               // negative -> positive crossings
                    2 => t = if tape.chance(1, 3) { *tape.pick(TIMES) } else { t.wrapping_add(*tape.pick(&[0, 1, 10])) },  // arbitrary incl. decreases
                    3 => t = t.wrapping_add(*tape.pick(&[0, 1, 1 << 30, i32::MAX])),                   // wrapping
                    _ => t = *tape.pick(TIMES),
                }
                times.push(t);
                instrs.push(json!({"time": t, "opcode": TAG_OP, "tag": k as i32 + 1}));
            }
            // per-difficulty variants: a run of the tagged instruction with ascending single-difficulty masks (which the
            // decompiler may fold into one difficulty switch) whose stored times may change in the middle of the run
            let ladder = tape.chance(1, 3);
            if ladder {
                let start = tape.below(n);
                let len = (2 + tape.below(3)).min(n - start);
                for j in 0..len { instrs[start + j]["difficulty"] = json!(1u32 << j); }
                if len >= 4 && tape.chance(1, 2) { let keep = instrs[start]["time"].clone(); instrs[start + 1]["time"] = keep; }
            }
            // optional jump inserted at a random position, targeting instruction j
            let mut jump = Value::Null;
            if tape.chance(1, 2) {
                let at = tape.below(n + 1);
                let target = tape.below(n + 1);
                let tt = match tape.below(3) {
                    0 => if target < n { times[target] } else { *times.last().unwrap() },
                    1 => if target > 0 { times[target - 1] } else { 0 },
                    _ => *tape.pick(TIMES),
                };
                let jt = if at > 0 { times[at - 1] } else { 0 };
                jump = json!({"at": at, "target": target, "t": tt, "time": if tape.bool() { jt } else if at < n { times[at] } else { jt }});
            }
            let mut spec = spec;
            if ladder { spec.diff_flags = vec![(0, "E-".into()), (1, "N-".into()), (2, "H-".into()), (3, "L-".into()), (4, "4-".into()), (5, "5-".into()), (6, "6-".into()), (7, "7-".into())]; }
            json!({"mode": "decompile", "spec": spec.to_json(), "instrs": instrs, "jump": if ladder { Value::Null } else { jump }, "ladder": ladder})
        }
    }

    fn check(&self, case: &Value, ctx: &mut CheckCtx) -> Outcome {
        let spec = LangSpec::from_json(&case["spec"]);
        let hooks = spec.hooks();
        if case["mode"] == "compile" {
            ctx.label("compile");
            let text = case["text"].as_str().unwrap();
            let expected: Vec<(i32, i32)> = case["expected"].as_array().unwrap().iter().map(|p| (p[0].as_i64().unwrap() as i32, p[1].as_i64().unwrap() as i32)).collect();
            if case["edge_label"] == true { ctx.label("edge_label"); }
            if case["decrease"] == true { ctx.label("decrease"); }
            if case["crossing"] == true { ctx.label("crossing"); }
            if case["diff_labelled"] == true { ctx.label("difficulty-labelled-block"); }
            if case["edge_label"] == true || case["decrease"] == true || case["crossing"] == true { ctx.nontrivial(); }
            return tx::with_truth(|truth| {
                let compiled = match tx::compile_body(truth, &spec, &hooks, text, tx::PipeOpts::default()) {
                    Ok(c) => c,
                    Err(stage) => {
                        let d = tx::diags(truth);
                        if !tx::has_error_diag(&d) { return Outcome::Fail(Failure::new("c13:err-without-diagnostic", format!("{:?}", stage))); }
                        return Outcome::Discard(format!("compile-error:{:?}", stage));
                    }
                };
                let got = tag_times(&tx::to_minstrs(&compiled.instrs));
                let gotm: BTreeMap<i32, Vec<i32>> = got.iter().fold(BTreeMap::new(), |mut m, (k, t)| { m.entry(*k).or_insert_with(Vec::new).push(*t); m });
                for (k, t) in &expected {
                    match gotm.get(k) {
                        None => return Outcome::Fail(Failure::new("c13:compile:tagged-instruction-missing", format!("tag {} not found in output", k))),
                        Some(ts) => if ts.iter().any(|x| x != t) { return Outcome::Fail(Failure::new("c13:compile:time-differs", format!("instruction tagged {} has time {:?}, label rules give {}\n{}", k, ts, t, text))); }
                    }
                }
                if expected.iter().any(|(_, t)| *t == i32::MIN || *t == i32::MAX) { ctx.label("wrapped"); }
                Outcome::Pass
            });
        }
        ctx.label("decompile");
        // build the stream
        let mut instrs: Vec<MInstr> = case["instrs"].as_array().unwrap().iter().map(|i| MInstr {
            time: i["time"].as_i64().unwrap() as i32, opcode: TAG_OP, mask: 0, blob: (i["tag"].as_i64().unwrap() as i32).to_le_bytes().to_vec(), difficulty: i["difficulty"].as_u64().unwrap_or(0xFF) as u8 }).collect();
        let stored: Vec<(i32, i32)> = tag_times(&instrs);
        let ladder = case["ladder"] == true;
        if ladder { ctx.label("difficulty-run"); ctx.nontrivial(); }
        let jump = &case["jump"];
        if !jump.is_null() {
            ctx.label("jump");
            let at = jump["at"].as_u64().unwrap() as usize;
            let target = jump["target"].as_u64().unwrap() as usize;
            // offsets: tagged instrs are 8 bytes, the jump is 12 bytes (header 4)
            let jsig = spec.sigs[&OP_JMP].clone();
            let off_of = |idx: usize| -> i32 { (idx * 8 + if idx > at { 12 } else { 0 }) as i32 };
            let dest = off_of(target);
            let tt = jump["t"].as_i64().unwrap() as i32;
            let mut blob = vec![];
            for ch in jsig.chars() { match ch { 'o' => blob.extend(dest.to_le_bytes()), 't' => blob.extend(tt.to_le_bytes()), _ => blob.extend(0i32.to_le_bytes()) } }
            instrs.insert(at, MInstr { time: jump["time"].as_i64().unwrap() as i32, opcode: OP_JMP, mask: 0, blob, difficulty: 0xFF });
        }
        let ts: Vec<i32> = stored.iter().map(|x| x.1).collect();
        if ts.windows(2).any(|w| w[1] < w[0]) { ctx.label("decrease"); ctx.nontrivial(); }
        if ts.windows(2).any(|w| (w[0] < 0) != (w[1] < 0)) || ts.first().map(|t| *t < 0).unwrap_or(false) { ctx.label("crossing"); ctx.nontrivial(); }
        if ts.iter().any(|t| *t == i32::MIN || *t == i32::MAX) { ctx.label("wrapped"); }
        let raws = tx::from_minstrs(&instrs);
        // 1. raise and evaluate the emitted labels with M-time
        let text = match tx::with_truth(|truth| -> Result<String, Outcome> {
            truth.apply_mapfile_str(&spec.mapfile_text(), truth::Game::Th10).map_err(|e| { e.ignore(); Outcome::Discard("mapfile".into()) })?;
            let stmts = match tx::raise_flat(truth, &hooks, &raws, &truth::DecompileOptions::default()) {
                Ok(s) => s,
                Err(()) => { let d = tx::diags(truth); if !tx::has_error_diag(&d) { return Err(Outcome::Fail(Failure::new("c13:raise-err-without-diagnostic", ""))); } return Err(Outcome::Discard("raise-error".into())); }
            };
            // (with per-difficulty runs the statements may be difficulty switches: only the recompilation below is compared)
            let got = if ladder { stored.clone() } else { mtime_over_ast(&stmts).map_err(|e| Outcome::Fail(Failure::new("c13:decompile:unexpected-statement-shape", e)))? };
            if got != stored {
                return Err(Outcome::Fail(Failure::new("c13:decompile:labels-do-not-reproduce-times", format!("stored (tag,time): {:?}\nlabels give: {:?}\n{}", stored, got, tx::stringify_block(&ast::Block(stmts.clone()))))));
            }
            tx::format_at(&ast::Block(stmts), 100).map_err(|e| Outcome::Fail(Failure::new("c13:format-error", e)))
        }) { Ok(t) => t, Err(o) => return o };
        if std::env::var("TV_DUMP_TEXT").is_ok() { eprintln!("{}", text); }
        // 2. recompile the printed text in a fresh context
        tx::with_truth(|truth| {
            let compiled = match tx::compile_body(truth, &spec, &hooks, &text, tx::PipeOpts::default()) {
                Ok(c) => c,
                Err(stage) => return Outcome::Fail(Failure::new(format!("c13:decompiled-text-does-not-compile:{:?}", stage), format!("{}\n{}", tx::diags(truth), text))),
            };
            let again = tag_times(&tx::to_minstrs(&compiled.instrs));
            if again != stored { return Outcome::Fail(Failure::new("c13:recompile:times-differ", format!("stored {:?}\nrecompiled {:?}\n{}", stored, again, text))); }
            Outcome::Pass
        })
    }
}
