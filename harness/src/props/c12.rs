//! C12 — argument encoding and decoding are inverse for every instruction signature.
use serde_json::{json, Value};
use truth::ast;
use crate::engine::*;
use crate::gen::prog::*;
use crate::model::codec::*;
use crate::model::machine::MInstr;
use crate::tx;

pub struct C12;
const OP: u16 = 300;

fn param_to_json(p: &Param) -> Value {
    let (kind, extra) = match &p.kind {
        PKind::Str { size, mask, furibug } => ("str", json!({"size": match size { StrSize::Block(b) => json!({"bs": b}), StrSize::Pascal(b) => json!({"pbs": b}), StrSize::Fixed { len, nulless } => json!({"len": len, "nulless": nulless}) }, "mask": mask, "furibug": furibug})),
        _ => ("simple", Value::Null),
    };
    json!({"ch": p.ch.to_string(), "kind": kind, "extra": extra, "imm": p.imm, "arg0": p.arg0, "hex": p.hex, "enm": p.enm})
}
fn param_from_json(v: &Value) -> Param {
    let ch = v["ch"].as_str().unwrap().chars().next().unwrap();
    let mut p = if v["kind"] == "str" {
        let e = &v["extra"];
        let size = if let Some(b) = e["size"].get("bs") { StrSize::Block(b.as_u64().unwrap() as usize) } else if let Some(b) = e["size"].get("pbs") { StrSize::Pascal(b.as_u64().unwrap() as usize) } else { StrSize::Fixed { len: e["size"]["len"].as_u64().unwrap() as usize, nulless: e["size"]["nulless"].as_bool().unwrap() } };
        let m: Vec<u8> = e["mask"].as_array().unwrap().iter().map(|x| x.as_u64().unwrap() as u8).collect();
        Param { ch, kind: PKind::Str { size, mask: [m[0], m[1], m[2]], furibug: e["furibug"].as_bool().unwrap() }, imm: false, arg0: false, hex: false, enm: false }
    } else { Param::simple(ch) };
    p.imm = v["imm"].as_bool().unwrap_or(false); p.arg0 = v["arg0"].as_bool().unwrap_or(false); p.hex = v["hex"].as_bool().unwrap_or(false); p.enm = v["enm"].as_bool().unwrap_or(false);
    p
}
fn arg_to_json(a: &Arg) -> Value { match a { Arg::I(v) => json!({"i": v}), Arg::F(x) => json!({"f": x.to_bits()}), Arg::Reg(r) => json!({"reg": r}), Arg::S(s) => json!({"s": s}) } }
fn arg_from_json(v: &Value) -> Arg {
    if let Some(x) = v.get("i") { Arg::I(x.as_i64().unwrap() as i32) } else if let Some(x) = v.get("f") { Arg::F(f32::from_bits(x.as_u64().unwrap() as u32)) } else if let Some(x) = v.get("reg") { Arg::Reg(x.as_i64().unwrap() as i32) } else { Arg::S(v["s"].as_str().unwrap().to_string()) }
}

fn print_arg(a: &Arg, p: &Param) -> String {
    match a {
        Arg::I(v) => Expr::LitI(*v).print_top(),
        Arg::F(x) => Expr::LitF(*x).print_top(),
        Arg::Reg(r) => format!("{}REG[{}]", if p.is_float() { "%" } else { "$" }, r),
        Arg::S(s) => fmt_str_lit(s),
    }
}

fn mapfile_for(sig: &Sig, timeline: bool) -> String {
    if timeline { format!("!eclmap\n!timeline_ins_signatures\n{} {}\n", OP, sig.print()) }
    else { format!("!anmmap\n!ins_signatures\n{} {}\n!gvar_types\n1000 $\n1001 $\n1010 $\n1020 $\n1004 %\n1005 %\n1012 %\n", OP, sig.print()) }
}

/// read the arguments of `ins_300(..)` statements out of a raised statement list
fn raised_args(stmts: &[truth::Sp<ast::Stmt>]) -> Result<Vec<Vec<Arg>>, String> {
    let mut out = vec![];
    for s in stmts {
        if let ast::StmtKind::Expr(e) = &s.kind { if let ast::Expr::Call(c) = &e.value {
            if !c.pseudos.is_empty() { return Err(format!("raised with pseudo-args: {}", truth::fmt::stringify(&e.value))); }
            let mut args = vec![];
            for a in &c.args {
                args.push(match &a.value {
                    ast::Expr::LitInt { value, .. } => Arg::I(*value),
                    ast::Expr::LitFloat { value } => Arg::F(*value),
                    ast::Expr::LitString(s) => Arg::S(s.string.clone()),
                    // enum-coloured arguments print 0 / 1 as the constants of the built-in `bool` enum
                    ast::Expr::EnumConst { ident, .. } if ident.value.as_raw().to_string() == "true" => Arg::I(1),
                    ast::Expr::EnumConst { ident, .. } if ident.value.as_raw().to_string() == "false" => Arg::I(0),
                    ast::Expr::Var(v) if matches!(&v.name, ast::VarName::Normal { ident, .. } if ident.as_raw().to_string() == "true") => Arg::I(1),
                    ast::Expr::Var(v) if matches!(&v.name, ast::VarName::Normal { ident, .. } if ident.as_raw().to_string() == "false") => Arg::I(0),
                    ast::Expr::Var(v) => match v.name { ast::VarName::Reg { reg, .. } => Arg::Reg(reg.0), _ => return Err(format!("unexpected named variable {}", truth::fmt::stringify(&a.value))) },
                    other => return Err(format!("unexpected argument form {}", truth::fmt::stringify(other))),
                });
            }
            out.push(args);
        } }
    }
    Ok(out)
}

fn arg_same(a: &Arg, b: &Arg) -> bool { match (a, b) { (Arg::F(x), Arg::F(y)) => x.to_bits() == y.to_bits(), _ => a == b } }

impl Property for C12 {
    fn id(&self) -> &'static str { "C12" }
    fn rule(&self) -> &'static str {
        "generated signatures over S s U u C c b f n N E _ - z m p with imm/hex/arg0/bs/len/nulless/mask/furibug attributes, up to 16 parameters with padding anywhere, x argument lists with width-boundary values (fitting and not), registers in allowed and immediate-only positions, Shift-JIS strings around buffer/block boundaries (encodable and not), 1..3 consecutive calls (furigana carry); checked: emitted blob/mask/arg0 == M-codec, decompiled arguments == M-codec decode, re-lowering reproduces the bytes, and every non-round-trippable input is diagnosed; non-trivial = >= 3 parameters incl. padding/sub-dword/string and a register or boundary value"
    }
    fn tape_len(&self, tier: Tier) -> usize { tier.pick(200, 300) }
    fn cases(&self, tier: Tier) -> u32 { tier.pick(300000, 6000000) }
    fn required_labels(&self, _tier: Tier) -> Vec<&'static str> { vec!["clean", "must_diagnose", "string", "padding", "register", "arg0", "furibug", "pascal", "fixed"] }

    fn generate(&self, tape: &mut Tape, _tier: Tier, known: &Known) -> Value {
        let timeline = tape.chance(1, 6);
        let knobs = SigKnobs { registers: !timeline, strings: true, jumps: false, arg0: timeline, max_params: if tape.chance(1, 8) { 16 } else { 6 }, zero_bs: !known.has("zero-block-size") };
        let sig = gen_sig(tape, &knobs);
        let allow_bad = tape.chance(1, 3);
        let nstmts = if sig.params.iter().any(|p| matches!(p.kind, PKind::Str { furibug: true, .. })) { 1 + tape.below(3) } else { 1 };
        let mut stmts = vec![];
        for _ in 0..nstmts {
            let mut args: Vec<Arg> = sig.real_params().iter().map(|p| gen_arg(tape, p, !timeline, allow_bad)).collect();
            if known.has("silent-int-narrowing") {
                // keep sub-dword values in range while the finding stands
                for (a, p) in args.iter_mut().zip(sig.real_params()) { if let (Arg::I(v), PKind::Int { size, signed }) = (&*a, &p.kind) { if !int_fits(*size, *signed, *v) || (p.arg0 && !int_fits(2, true, *v)) { *a = Arg::I(1); } } }
            }
            stmts.push(args);
        }
        json!({"timeline": timeline, "params": sig.params.iter().map(param_to_json).collect::<Vec<_>>(), "sig": sig.print(),
               "stmts": stmts.iter().map(|a| a.iter().map(arg_to_json).collect::<Vec<_>>()).collect::<Vec<_>>()})
    }

    fn check(&self, case: &Value, ctx: &mut CheckCtx) -> Outcome {
        let sig = Sig { params: case["params"].as_array().unwrap().iter().map(param_from_json).collect() };
        let timeline = case["timeline"] == true;
        let stmts: Vec<Vec<Arg>> = case["stmts"].as_array().unwrap().iter().map(|s| s.as_array().unwrap().iter().map(arg_from_json).collect()).collect();
        let real = sig.real_params();
        // model
        let mut state = FuriState::default();
        let mut expected = vec![];
        let mut issues = vec![];
        for args in &stmts {
            match encode(&sig, args, &mut state) { Ok((e, i)) => { expected.push(e); issues.extend(i); } Err(e) => return Outcome::Discard(format!("model rejects case: {}", e)) }
        }
        let zero_bs = sig.params.iter().any(|p| matches!(p.kind, PKind::Str { size: StrSize::Block(0), .. } | PKind::Str { size: StrSize::Pascal(0), .. }));
        // labels
        if sig.params.iter().any(|p| p.is_pad()) { ctx.label("padding"); }
        if sig.params.iter().any(|p| p.is_string()) { ctx.label("string"); }
        if sig.params.iter().any(|p| matches!(p.kind, PKind::Str { size: StrSize::Pascal(_), .. })) { ctx.label("pascal"); }
        if sig.params.iter().any(|p| matches!(p.kind, PKind::Str { size: StrSize::Fixed { .. }, .. })) { ctx.label("fixed"); }
        if sig.params.iter().any(|p| matches!(p.kind, PKind::Str { furibug: true, .. })) && stmts.len() > 1 { ctx.label("furibug"); }
        if sig.params.iter().any(|p| p.arg0) { ctx.label("arg0"); }
        let has_reg = stmts.iter().flatten().any(|a| matches!(a, Arg::Reg(_)));
        if has_reg { ctx.label("register"); }
        if sig.params.len() >= 3 && sig.params.iter().any(|p| p.is_pad() || p.is_string() || matches!(p.kind, PKind::Int { size: 1 | 2, .. })) { ctx.nontrivial(); }

        let mut text = String::from("{\n");
        for args in &stmts { text.push_str(&format!("    ins_{}({});\n", OP, args.iter().zip(real.iter()).map(|(a, p)| print_arg(a, p)).collect::<Vec<_>>().join(", "))); }
        text.push_str("}\n");
        let mapfile = mapfile_for(&sig, timeline);
        let mut hooks = truth::llir::TestLanguage::default();
        hooks.language = if timeline { truth::LanguageKey::Timeline } else { truth::LanguageKey::Anm };
        let game = if timeline { truth::Game::Th06 } else { truth::Game::Th10 };
        let opts = tx::PipeOpts { const_simplify: true, lower: true, debug_info: false, stop_after_typecheck: false };
        let show = |extra: &str| format!("signature: {}\n{}{}", sig.print(), text, extra);

        let (res, diags) = tx::with_truth(|truth| { let r = tx::compile_body_with(truth, &mapfile, game, &hooks, &text, opts).map(|c| tx::to_minstrs(&c.instrs)); (r, tx::diags(truth)) });
        if zero_bs {
            // a block size of zero has no meaning: the mapfile (or the call) must be rejected with a diagnostic
            return match res { Err(_) if tx::has_error_diag(&diags) => { ctx.label("must_diagnose"); Outcome::Pass }, Err(_) => Outcome::Fail(Failure::new("c12:err-without-diagnostic", show(""))), Ok(_) => Outcome::Fail(Failure::new("c12:zero-block-size-accepted", show(""))) };
        }
        if !issues.is_empty() {
            ctx.label("must_diagnose");
            return match res {
                Err(_) => if tx::has_error_diag(&diags) { Outcome::Pass } else { Outcome::Fail(Failure::new("c12:err-without-diagnostic", show(""))) },
                Ok(_) if !diags.is_empty() => Outcome::Pass,
                Ok(instrs) => {
                    let kind = match &issues[0] { EncodeIssue::IntDoesNotFit(_) => "int-does-not-fit", EncodeIssue::RegInImmediate(_) => "register-in-immediate", EncodeIssue::StringUnencodable(_) => "string-unencodable", EncodeIssue::StringTooLong(_) => "string-too-long", EncodeIssue::StringHasNul(_) => "string-has-nul" };
                    Outcome::Fail(Failure::new(format!("c12:silent:{}", kind), show(&format!("compiled without any diagnostic although {:?}\n{}", issues, super::c02::dump(&instrs)))))
                }
            };
        }
        ctx.label("clean");
        let instrs = match res {
            Ok(i) => i,
            Err(stage) => return Outcome::Fail(Failure::new(format!("c12:valid-call-rejected:{:?}", stage), show(&diags))),
        };
        if !diags.is_empty() { return Outcome::Fail(Failure::new("c12:diagnostic-on-valid-call", show(&diags))); }
        let calls: Vec<&MInstr> = instrs.iter().filter(|i| i.opcode == OP).collect();
        if calls.len() != expected.len() { return Outcome::Fail(Failure::new("c12:instruction-count", show(&super::c02::dump(&instrs)))); }
        // (1) bytes, mask, arg0
        let raws = tx::with_truth(|truth| tx::compile_body_with(truth, &mapfile, game, &hooks, &text, opts).map(|c| c.instrs)).unwrap();
        for ((got, want), raw) in calls.iter().zip(expected.iter()).zip(raws.iter()) {
            if got.blob != want.blob { return Outcome::Fail(Failure::new("c12:blob-differs", show(&format!("emitted {:02x?}\nmodel   {:02x?}", got.blob, want.blob)))); }
            if got.mask != want.mask { return Outcome::Fail(Failure::new("c12:param-mask-differs", show(&format!("emitted {:#b} model {:#b}", got.mask, want.mask)))); }
            if raw.extra_arg.unwrap_or(0) != want.extra_arg.unwrap_or(0) { return Outcome::Fail(Failure::new("c12:arg0-differs", show(&format!("emitted {:?} model {:?}", raw.extra_arg, want.extra_arg)))); }
        }
        // (2) decode by truth == decode by the model (== the arguments, since there are no issues)
        let model_decoded: Vec<Vec<Arg>> = match expected.iter().map(|e| decode(&sig, e)).collect() { Ok(d) => d, Err(e) => return Outcome::Discard(format!("model cannot decode its own output: {}", e)) };
        for (d, a) in model_decoded.iter().zip(stmts.iter()) {
            if d.len() != a.len() || !d.iter().zip(a.iter()).all(|(x, y)| arg_same(x, y)) { return Outcome::Discard("model round trip is not the identity for this case (ambiguous Shift-JIS text?)".into()); }
        }
        let raised_text = match tx::with_truth(|truth| -> Result<String, Outcome> {
            truth.apply_mapfile_str(&mapfile, game).map_err(|e| { e.ignore(); Outcome::Discard("mapfile".into()) })?;
            let options = truth::DecompileOptions { intrinsics: false, ..Default::default() };
            let stmts_ast = tx::raise_flat(truth, &hooks, &raws, &options).map_err(|_| Outcome::Fail(Failure::new("c12:decompile-failed", show(&tx::diags(truth)))))?;
            let d = tx::diags(truth);
            if !d.is_empty() { return Err(Outcome::Fail(Failure::new("c12:decompile-diagnostic-on-compiler-output", show(&d)))); }
            let got = raised_args(&stmts_ast).map_err(|e| Outcome::Fail(Failure::new("c12:decompiled-shape", show(&e))))?;
            if got.len() != stmts.len() { return Err(Outcome::Fail(Failure::new("c12:decompiled-statement-count", show(&tx::stringify_block(&ast::Block(stmts_ast.clone())))))); }
            for (g, w) in got.iter().zip(stmts.iter()) {
                if g.len() != w.len() || !g.iter().zip(w.iter()).all(|(x, y)| arg_same(x, y)) {
                    return Err(Outcome::Fail(Failure::new("c12:decompiled-arguments-differ", show(&format!("decompiled: {:?}\noriginal:   {:?}", g, w)))));
                }
            }
            tx::format_at(&ast::Block(stmts_ast), 100).map_err(|e| Outcome::Fail(Failure::new("c12:format-error", e)))
        }) { Ok(t) => t, Err(o) => return o };
        // (3) re-lowering the decompiled statement reproduces the bytes
        let again = tx::with_truth(|truth| tx::compile_body_with(truth, &mapfile, game, &hooks, &raised_text, opts).map(|c| tx::to_minstrs(&c.instrs)).map_err(|s| format!("{:?}: {}", s, tx::diags(truth))));
        match again {
            Err(e) => Outcome::Fail(Failure::new("c12:decompiled-text-does-not-compile", show(&format!("{}\n{}", raised_text, e)))),
            Ok(a) => if a == instrs { Outcome::Pass } else { Outcome::Fail(Failure::new("c12:recompiled-bytes-differ", show(&format!("{}\n{}\nvs\n{}", raised_text, super::c02::dump(&a), super::c02::dump(&instrs))))) },
        }
    }
}
