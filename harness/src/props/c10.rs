//! C10 — names resolve by lexical scope, independent of how they are spelled.
//! Oracle 1: M-scope (independent scope model) vs Resolutions; Oracle 2: injective renaming leaves the output unchanged.
use std::collections::BTreeMap;
use serde_json::{json, Value};
use truth::ast;
use crate::engine::*;
use crate::gen::lang::*;
use crate::tx;

pub struct C10;

// ---- scope-tree programs -------------------------------------------------------------------

#[derive(Clone, Debug)]
enum E { Lit(i32), Name(String), Add(Box<E>, Box<E>) }

#[derive(Clone, Debug)]
enum S {
    Decl(String, E),
    Const(String, E),
    Use(E),                 // ins_200(e)
    Assign(String, E),      // name = e   (name is a use)
    Block(Vec<S>),
    If(E, Vec<S>, Option<Vec<S>>),
    Loop(u8, Vec<S>),       // 0: times(2) { .. }  1: loop { .. }  2: while (1) { .. }  3: do { .. } while (0);
    Func(String, Vec<String>, Vec<S>),   // void name(int p, ..) { .. }   (an item: visible in the whole block, its body sees no outer locals)
    CallF(String, Vec<E>),               // name(e, ..);
}

const POOL: &[&str] = &["a", "b", "c", "d", "e"];
const ALIASES: &[&str] = &["GI0", "N0"];       // register aliases of default_lang (int)
const BUILTINS: &[&str] = &["true", "false"];   // always-available int consts
const FPOOL: &[&str] = &["f", "g", "h", "a", "b"];   // function names (their own namespace: `a` the function and `a` the variable coexist)

fn gen_e(t: &mut Tape, depth: usize, names: &[&str], declared: &[String]) -> E {
    match t.below(if depth == 0 { 3 } else { 4 }) {
        0 => E::Lit(t.below(9) as i32),
        1 | 2 => { if !declared.is_empty() && !t.chance(1, 4) { E::Name(t.pick(declared).clone()) } else { E::Name((*t.pick(names)).to_string()) } }
        _ => E::Add(Box::new(gen_e(t, depth - 1, names, declared)), Box::new(gen_e(t, depth - 1, names, declared))),
    }
}

fn gen_block(t: &mut Tape, depth: usize, budget: &mut usize, names: &[&str], outer: &[String]) -> Vec<S> {
    let fns = FNS.with(|f| f.get());
    let n = 1 + t.below(5);
    let mut out = vec![];
    // names (probably) visible here: what enclosing blocks declared before this point, plus the globals
    let mut declared: Vec<String> = outer.to_vec();
    let mut local_names: Vec<String> = vec![];
    for _ in 0..n {
        if *budget == 0 { break; }
        *budget -= 1;
        let fresh_name = |t: &mut Tape, local_names: &Vec<String>| -> String {
            // mostly avoid redeclaring in the same block (still happens sometimes)
            let mut n = (*t.pick(POOL)).to_string();
            if local_names.contains(&n) && !t.chance(1, 6) { for c in POOL { if !local_names.iter().any(|x| x == c) { n = c.to_string(); break; } } }
            n
        };
        let s = match t.below(if fns { 13 } else { 10 }) {
            0 | 1 => { let e = gen_e(t, 1, names, &declared); let n = fresh_name(t, &local_names); declared.push(n.clone()); local_names.push(n.clone()); S::Decl(n, e) }
            2 | 3 => { let consts: Vec<String> = vec![]; let e = gen_e(t, 1, names, &consts); let n = fresh_name(t, &local_names); declared.push(n.clone()); local_names.push(n.clone()); S::Const(n, if t.chance(1, 3) { gen_e(t, 1, names, &declared) } else { e }) }
            4 | 5 => S::Use(gen_e(t, 2, names, &declared)),
            6 => { let n = if !declared.is_empty() && !t.chance(1, 5) { t.pick(&declared).clone() } else { (*t.pick(POOL)).to_string() }; S::Assign(n, gen_e(t, 1, names, &declared)) }
            7 if depth > 0 => S::Block(gen_block(t, depth - 1, budget, names, &declared)),
            8 if depth > 0 => { let c = gen_e(t, 1, names, &declared); let a = gen_block(t, depth - 1, budget, names, &declared); let b = if t.bool() { Some(gen_block(t, depth - 1, budget, names, &declared)) } else { None }; S::If(c, a, b) }
            9 if depth > 0 => { let kind = t.below(4) as u8; S::Loop(kind, gen_block(t, depth - 1, budget, names, &declared)) }
            10 if depth > 0 => {
                let name = (*t.pick(FPOOL)).to_string();
                let np = t.below(3);
                let params: Vec<String> = (0..np).map(|_| (*t.pick(POOL)).to_string()).collect();
                // inside the body the parameters are the probable names; outer locals are deliberately offered too (they must be rejected)
                let mut inner: Vec<String> = params.clone(); if t.chance(1, 3) { inner.extend(declared.iter().cloned()); }
                S::Func(name, params, gen_block(t, depth - 1, budget, names, &inner))
            }
            11 | 12 => { let n = t.below(3); S::CallF((*t.pick(FPOOL)).to_string(), (0..n).map(|_| gen_e(t, 1, names, &declared)).collect()) }
            _ => S::Use(gen_e(t, 1, names, &declared)),
        };
        out.push(s);
    }
    out
}

fn print_e(e: &E, out: &mut String) {
    match e { E::Lit(x) => out.push_str(&x.to_string()), E::Name(n) => out.push_str(n), E::Add(a, b) => { out.push('('); print_e(a, out); out.push_str(" + "); print_e(b, out); out.push(')'); } }
}
fn print_block(b: &[S], ind: usize, out: &mut String) {
    let pad = "    ".repeat(ind);
    for s in b {
        match s {
            S::Decl(n, e) => { out.push_str(&format!("{}int {} = ", pad, n)); print_e(e, out); out.push_str(";\n"); }
            S::Const(n, e) => { out.push_str(&format!("{}const int {} = ", pad, n)); print_e(e, out); out.push_str(";\n"); }
            S::Use(e) => { out.push_str(&format!("{}ins_200(", pad)); print_e(e, out); out.push_str(");\n"); }
            S::Assign(n, e) => { out.push_str(&format!("{}{} = ", pad, n)); print_e(e, out); out.push_str(";\n"); }
            S::Block(b) => { out.push_str(&format!("{}{{\n", pad)); print_block(b, ind + 1, out); out.push_str(&format!("{}}}\n", pad)); }
            S::If(c, a, b) => { out.push_str(&format!("{}if (", pad)); print_e(c, out); out.push_str(") {\n"); print_block(a, ind + 1, out); if let Some(b) = b { out.push_str(&format!("{}}} else {{\n", pad)); print_block(b, ind + 1, out); } out.push_str(&format!("{}}}\n", pad)); }
            S::Func(n, ps, b) => { out.push_str(&format!("{}void {}({}) {{\n", pad, n, ps.iter().map(|p| format!("int {}", p)).collect::<Vec<_>>().join(", "))); print_block(b, ind + 1, out); out.push_str(&format!("{}}}\n", pad)); }
            S::CallF(n, es) => { out.push_str(&format!("{}{}(", pad, n)); for (i, e) in es.iter().enumerate() { if i > 0 { out.push_str(", "); } print_e(e, out); } out.push_str(");\n"); }
            S::Loop(kind, b) => {
                let (open, close) = match kind { 0 => ("times(2) {", "}"), 1 => ("loop {", "}"), 2 => ("while (1) {", "}"), _ => ("do {", "} while (0);") };
                out.push_str(&format!("{}{}\n", pad, open)); print_block(b, ind + 1, out); out.push_str(&format!("{}{}\n", pad, close));
            }
        }
    }
}

// ---- M-scope ---------------------------------------------------------------------------------

#[derive(Clone, Debug, PartialEq)]
enum Res { Decl(usize), Global(String), Error(String), Unspecified,
    /// an argument beyond the callee's parameter list: the call is rejected for its arity later, and resolution never looks at it
    Unchecked }

#[derive(Clone, Copy, PartialEq, Debug)]
enum RibKind { Items, Locals, Barrier }
struct Rib { kind: RibKind, map: BTreeMap<String, usize> }

struct Model { fn_arity: BTreeMap<usize, usize>, fribs: Vec<BTreeMap<String, usize>>, fn_barrier_use: bool, fn_forward: bool, decl_occ: BTreeMap<usize, usize>, ribs: Vec<Rib>, occ: Vec<(String, Res)>, errors: usize, shadow: bool, forward: bool, barrier_use: bool, redeclared: bool }

impl Model {
    fn lookup(&mut self, name: &str, in_const: bool) -> Res {
        let mut crossed = false;
        let mut first = true;
        for i in (0..self.ribs.len()).rev() {
            let rib = &self.ribs[i];
            if rib.kind == RibKind::Barrier { crossed = true; continue; }
            if let Some(d) = rib.map.get(name) {
                if rib.kind == RibKind::Locals && crossed {
                    // a local seen from inside a const: the documentation says locals are never visible there;
                    // whether an outer const of the same name becomes visible again is not settled -> unspecified
                    let outer_exists = self.ribs[..i].iter().any(|r| r.map.contains_key(name)) || ALIASES.contains(&name) || BUILTINS.contains(&name) || ENUMS.with(|e| e.borrow().iter().any(|n| n == name));
                    return if outer_exists { Res::Unspecified } else { Res::Error(format!("local {} used inside a const", name)) };
                }
                if !first { self.shadow = true; }
                return Res::Decl(*d);
            }
            if self.ribs[..i].iter().any(|r| r.map.contains_key(name)) { first = false; }
        }
        if ENUMS.with(|e| e.borrow().iter().any(|n| n == name)) { return Res::Global(format!("enum:{}", name)); }
        if BUILTINS.contains(&name) { return Res::Global(format!("builtin:{}", name)); }
        if ALIASES.contains(&name) { return if in_const { Res::Error(format!("register alias {} in const context", name)) } else { Res::Global(format!("alias:{}", name)) }; }
        Res::Error(format!("unknown name {}", name))
    }
    fn expr(&mut self, e: &E, in_const: bool) {
        match e {
            E::Lit(_) => {}
            E::Name(n) => { let r = self.lookup(n, in_const); if matches!(r, Res::Error(_)) { self.errors += 1; } if in_const && matches!(r, Res::Decl(_)) { self.barrier_use = true; } self.occ.push((n.clone(), r)); }
            E::Add(a, b) => { self.expr(a, in_const); self.expr(b, in_const); }
        }
    }
    fn skip(&mut self, e: &E) {
        match e { E::Lit(_) => {}, E::Name(n) => self.occ.push((n.clone(), Res::Unchecked)), E::Add(a, b) => { self.skip(a); self.skip(b); } }
    }
    fn block(&mut self, b: &[S]) {
        // consts of this block are visible throughout it, including before their declaration
        let mut items = BTreeMap::new();
        let mut const_occ: BTreeMap<usize, usize> = BTreeMap::new(); // stmt index -> decl id
        for (i, s) in b.iter().enumerate() {
            if let S::Const(n, _) = s {
                let id = self.new_decl_id();
                if items.insert(n.clone(), id).is_some() { self.errors += 1; self.redeclared = true; }
                const_occ.insert(i, id);
            }
        }
        // functions of this block: their own namespace, visible throughout the block
        let mut fitems = BTreeMap::new();
        let mut func_occ: BTreeMap<usize, usize> = BTreeMap::new();
        for (i, s) in b.iter().enumerate() {
            if let S::Func(n, _, _) = s {
                let id = self.new_decl_id();
                if fitems.insert(n.clone(), id).is_some() { self.errors += 1; self.redeclared = true; }
                func_occ.insert(i, id);
                if let S::Func(_, ps, _) = s { self.fn_arity.insert(id, ps.len()); }
            }
        }
        self.fribs.push(fitems);
        self.ribs.push(Rib { kind: RibKind::Items, map: items });
        self.ribs.push(Rib { kind: RibKind::Locals, map: BTreeMap::new() });
        for (i, s) in b.iter().enumerate() {
            match s {
                S::Decl(n, e) => {
                    // (the declared name is printed before its initialiser)
                    let id = self.new_decl_id();
                    let slot = self.occ.len();
                    self.decl_occ.insert(id, slot);
                    self.occ.push((n.clone(), Res::Decl(id)));
                    self.expr(e, false);
                    let top = self.ribs.last_mut().unwrap();
                    if top.map.insert(n.clone(), id).is_some() { self.errors += 1; self.redeclared = true; }
                    let _ = slot;
                }
                S::Const(n, e) => {
                    self.decl_occ.insert(const_occ[&i], self.occ.len());
                    self.occ.push((n.clone(), Res::Decl(const_occ[&i])));
                    // was it used before this point? (forward reference statistics)
                    self.ribs.push(Rib { kind: RibKind::Barrier, map: BTreeMap::new() });
                    self.expr(e, true);
                    self.ribs.pop();
                }
                S::Use(e) => self.expr(e, false),
                S::Assign(n, e) => { let r = self.lookup(n, false); if matches!(r, Res::Error(_)) { self.errors += 1; } self.occ.push((n.clone(), r)); self.expr(e, false); }
                S::Block(inner) => self.block(inner),
                S::If(c, a, e) => { self.expr(c, false); self.block(a); if let Some(e) = e { self.block(e); } }
                S::Loop(_, inner) => self.block(inner),
                S::Func(n, ps, body) => {
                    self.decl_occ.insert(func_occ[&i], self.occ.len());
                    self.occ.push((n.clone(), Res::Decl(func_occ[&i])));
                    // the body sees no locals / parameters of enclosing code; its parameters live in a rib of their own
                    self.ribs.push(Rib { kind: RibKind::Barrier, map: BTreeMap::new() });
                    let mut pm = BTreeMap::new();
                    for p in ps {
                        let id = self.new_decl_id();
                        self.decl_occ.insert(id, self.occ.len());
                        self.occ.push((p.clone(), Res::Decl(id)));
                        if pm.insert(p.clone(), id).is_some() { self.errors += 1; self.redeclared = true; }
                    }
                    self.ribs.push(Rib { kind: RibKind::Locals, map: pm });
                    let before = self.occ.len();
                    self.block(body);
                    if self.occ[before..].iter().any(|(_, r)| matches!(r, Res::Error(m) if m.starts_with("local "))) { self.fn_barrier_use = true; }
                    self.ribs.pop();
                    self.ribs.pop();
                }
                S::CallF(n, es) => {
                    let r = match self.fribs.iter().rev().find_map(|m| m.get(n)) { Some(d) => Res::Decl(*d), None => { self.errors += 1; Res::Error(format!("unknown function {}", n)) } };
                    // arguments are matched with the callee's parameters; surplus ones are never resolved (the arity error comes later)
                    let visited = match &r { Res::Decl(d) => self.fn_arity.get(d).copied().unwrap_or(usize::MAX), _ => usize::MAX };
                    self.occ.push((n.clone(), r));
                    for (k, e) in es.iter().enumerate() { if k < visited { self.expr(e, false); } else { self.skip(e); } }
                }
            }
        }
        self.fribs.pop();
        self.ribs.pop();
        self.ribs.pop();
    }
    fn new_decl_id(&mut self) -> usize { self.occ.len() * 1000 + self.ribs.len() * 7 + self.errors + { NEXT.with(|n| { let v = n.get(); n.set(v + 1); v }) } * 1_000_000 }
}
/// enum consts declared by the case's mapfile (name -> value): they shadow register aliases of the same name (the repo's own
/// test `sprite_shadows_reg_alias` names the rule) and are usable in const context
thread_local! { static ENUMS: std::cell::RefCell<Vec<String>> = std::cell::RefCell::new(vec![]); }
thread_local! { static FNS: std::cell::Cell<bool> = std::cell::Cell::new(false); }
thread_local! { static NEXT: std::cell::Cell<usize> = std::cell::Cell::new(1); }

fn run_model(b: &[S]) -> Model {
    let mut m = Model { fn_arity: BTreeMap::new(), fribs: vec![], fn_barrier_use: false, fn_forward: false, decl_occ: BTreeMap::new(), ribs: vec![], occ: vec![], errors: 0, shadow: false, forward: false, barrier_use: false, redeclared: false };
    m.block(b);
    // forward reference: a use of a const whose declaration occurrence comes later in the text
    let decl_pos = m.decl_occ.clone();
    for (i, (_, r)) in m.occ.iter().enumerate() { if let Res::Decl(d) = r { if decl_pos.get(d).map(|p| *p > i).unwrap_or(false) { m.forward = true; } } }
    m
}

// ---- truth side ------------------------------------------------------------------------------

fn truth_occurrences(block: &ast::Block, ctx: &truth::CompilerContext) -> Vec<(usize, String, Option<u32>)> {
    use truth::ast::{Visit, Visitable};
    struct V<'a, 'b> { out: Vec<(usize, String, Option<u32>)>, ctx: &'a truth::CompilerContext<'b> }
    impl Visit for V<'_, '_> {
        fn visit_item(&mut self, item: &truth::Sp<ast::Item>) {
            if let ast::Item::Func(f) = &item.value {
                self.out.push((f.ident.span.start.0 as usize, f.ident.value.as_raw().to_string(), self.ctx.resolutions.try_get_def(&f.ident.value).map(|d| d.0.get())));
                for p in &f.params { if let Some(id) = &p.value.ident { self.out.push((id.span.start.0 as usize, id.value.as_raw().to_string(), self.ctx.resolutions.try_get_def(&id.value).map(|d| d.0.get()))); } }
            }
            ast::walk_item(self, item)
        }
        fn visit_callable_name(&mut self, name: &truth::Sp<ast::CallableName>) {
            if let ast::CallableName::Normal { ident, .. } = &name.value {
                self.out.push((name.span.start.0 as usize, ident.as_raw().to_string(), self.ctx.resolutions.try_get_def(ident).map(|d| d.0.get())));
            }
        }
        fn visit_var(&mut self, var: &truth::Sp<ast::Var>) {
            if let ast::VarName::Normal { ident, .. } = &var.name {
                let def = self.ctx.resolutions.try_get_def(ident).map(|d| d.0.get());
                self.out.push((var.span.start.0 as usize, ident.as_raw().to_string(), def));
            }
        }
    }
    let mut v = V { out: vec![], ctx };
    block.visit_with(&mut v);
    v.out.sort();
    v.out
}

fn ident_tokens(text: &str, names: &[&str]) -> Vec<(usize, String)> {
    let b = text.as_bytes();
    let mut out = vec![];
    let mut i = 0;
    while i < b.len() {
        if b[i].is_ascii_alphabetic() || b[i] == b'_' {
            let s = i;
            while i < b.len() && (b[i].is_ascii_alphanumeric() || b[i] == b'_') { i += 1; }
            let w = &text[s..i];
            if names.contains(&w) { out.push((s, w.to_string())); }
        } else { i += 1; }
    }
    out
}

fn s_to_json(b: &[S]) -> Value {
    fn e(x: &E) -> Value { match x { E::Lit(v) => json!(v), E::Name(n) => json!(n), E::Add(a, b) => json!([e(a), e(b)]) } }
    json!(b.iter().map(|s| match s {
        S::Decl(n, x) => json!({"decl": n, "e": e(x)}), S::Const(n, x) => json!({"const": n, "e": e(x)}), S::Use(x) => json!({"use": e(x)}), S::Assign(n, x) => json!({"assign": n, "e": e(x)}),
        S::Block(b) => json!({"block": s_to_json(b)}), S::If(c, a, b) => json!({"if": e(c), "then": s_to_json(a), "else": b.as_ref().map(|b| s_to_json(b))}), S::Loop(k, b) => json!({"loop": s_to_json(b), "kind": k}),
        S::Func(n, ps, b) => json!({"func": n, "params": ps, "body": s_to_json(b)}), S::CallF(n, es) => json!({"callf": n, "args": es.iter().map(e).collect::<Vec<_>>()}),
    }).collect::<Vec<_>>())
}
fn s_from_json(v: &Value) -> Vec<S> {
    fn e(x: &Value) -> E { if let Some(i) = x.as_i64() { E::Lit(i as i32) } else if let Some(s) = x.as_str() { E::Name(s.to_string()) } else { E::Add(Box::new(e(&x[0])), Box::new(e(&x[1]))) } }
    v.as_array().unwrap().iter().map(|s| {
        if let Some(n) = s.get("decl") { S::Decl(n.as_str().unwrap().into(), e(&s["e"])) }
        else if let Some(n) = s.get("const") { S::Const(n.as_str().unwrap().into(), e(&s["e"])) }
        else if let Some(x) = s.get("use") { S::Use(e(x)) }
        else if let Some(n) = s.get("assign") { S::Assign(n.as_str().unwrap().into(), e(&s["e"])) }
        else if let Some(n) = s.get("func") { S::Func(n.as_str().unwrap().into(), s["params"].as_array().unwrap().iter().map(|p| p.as_str().unwrap().to_string()).collect(), s_from_json(&s["body"])) }
        else if let Some(n) = s.get("callf") { S::CallF(n.as_str().unwrap().into(), s["args"].as_array().unwrap().iter().map(e).collect()) }
        else if let Some(b) = s.get("block") { S::Block(s_from_json(b)) }
        else if let Some(c) = s.get("if") { S::If(e(c), s_from_json(&s["then"]), if s["else"].is_null() { None } else { Some(s_from_json(&s["else"])) }) }
        else { S::Loop(s["kind"].as_u64().unwrap_or(0) as u8, s_from_json(&s["loop"])) }
    }).collect()
}

/// rename every declaration to a fresh unique name, and every use to the name of the declaration the model resolves it to
fn rename(b: &[S], occ: &[(String, Res)], k: &mut usize, names: &mut BTreeMap<usize, String>) -> Vec<S> {
    fn nm(orig: &str, occ: &[(String, Res)], k: &mut usize, names: &mut BTreeMap<usize, String>) -> String {
        let (n, r) = &occ[*k]; *k += 1;
        debug_assert_eq!(n, orig);
        match r { Res::Decl(d) => { let l = names.len(); names.entry(*d).or_insert_with(|| format!("fresh_{}", l)).clone() } Res::Global(g) if g.starts_with("enum:") => format!("fresh_enum_{}", &g[5..]), _ => orig.to_string() }
    }
    fn ex(e: &E, occ: &[(String, Res)], k: &mut usize, names: &mut BTreeMap<usize, String>) -> E {
        match e { E::Lit(x) => E::Lit(*x), E::Name(n) => E::Name(nm(n, occ, k, names)), E::Add(a, b) => { let a2 = ex(a, occ, k, names); let b2 = ex(b, occ, k, names); E::Add(Box::new(a2), Box::new(b2)) } }
    }
    b.iter().map(|s| match s {
        S::Decl(n, e) => { let n2 = nm(n, occ, k, names); let e2 = ex(e, occ, k, names); S::Decl(n2, e2) }
        S::Const(n, e) => { let n2 = nm(n, occ, k, names); let e2 = ex(e, occ, k, names); S::Const(n2, e2) }
        S::Use(e) => S::Use(ex(e, occ, k, names)),
        S::Assign(n, e) => { let n2 = nm(n, occ, k, names); let e2 = ex(e, occ, k, names); S::Assign(n2, e2) }
        S::Block(b) => S::Block(rename(b, occ, k, names)),
        S::If(c, a, e) => { let c2 = ex(c, occ, k, names); let a2 = rename(a, occ, k, names); let e2 = e.as_ref().map(|e| rename(e, occ, k, names)); S::If(c2, a2, e2) }
        S::Loop(kind, b) => S::Loop(*kind, rename(b, occ, k, names)),
        S::Func(n, ps, b) => { let n2 = nm(n, occ, k, names); let ps2: Vec<String> = ps.iter().map(|p| nm(p, occ, k, names)).collect(); let b2 = rename(b, occ, k, names); S::Func(n2, ps2, b2) }
        S::CallF(n, es) => { let n2 = nm(n, occ, k, names); let es2 = es.iter().map(|e| ex(e, occ, k, names)).collect(); S::CallF(n2, es2) }
    }).collect()
}

impl Property for C10 {
    fn id(&self) -> &'static str { "C10" }
    fn rule(&self) -> &'static str {
        "generated scope trees (blocks, conditionals, all four loop forms, local declarations, const items and (1 case in 2) function items with parameters and calls, in any order) whose identifiers are drawn from a pool of 5 names plus register aliases, builtin consts and (1 case in 3) mapfile enum consts spelled like an alias / a pool name, so shadowing, forward references to consts, same-block redeclaration, use inside an own initialiser, locals used inside const initialisers and aliases in const context all occur; (1) Ok/Err and the definition classes of all identifier occurrences vs the scope model; (2) injective renaming of all declarations leaves the lowered instructions unchanged; non-trivial = a shadowing pair, a forward reference, or a use across a const barrier"
    }
    fn tape_len(&self, tier: Tier) -> usize { tier.pick(150, 300) }
    fn cases(&self, tier: Tier) -> u32 { tier.pick(200000, 4000000) }
    fn required_labels(&self, _tier: Tier) -> Vec<&'static str> { vec!["model:ok", "model:error", "shadowing", "forward_ref", "redeclared", "const_barrier_use", "functions", "function_barrier_use", "enum-consts", "enum-const-shadows-alias", "renamed_compiled", "two-languages", "two-languages:same-spelling"] }

    fn generate(&self, tape: &mut Tape, tier: Tier, _known: &Known) -> Value {
        if tape.chance(1, 8) {
            // instruction aliases of two languages in one file (pre-TH10 ECL subs and timelines): each alias is visible in its own
            // language only, whatever the other language calls its instructions -- so spelling the two aliases alike or not
            // must not change the result
            use crate::gen::files::{cached_lang, ECL_GAMES};
            let game = *tape.pick(ECL_GAMES);
            let pick_op = |l: &crate::gen::files::RealLang, tape: &mut Tape| -> Option<(u16, String)> {
                let ops: Vec<u16> = l.sigs.iter().filter(|(op, sig)| !l.intrinsic_ops.contains(op) && !sig.params.iter().any(|p| matches!(p.kind, crate::model::codec::PKind::Off | crate::model::codec::PKind::Time) || p.is_string()) && sig.real_params().iter().all(|p| p.ch != 'E' && p.ch != 'n' && p.ch != 'N' && !p.arg0 || true)).map(|(o, _)| *o).collect();
                if ops.is_empty() { return None; }
                let op = *tape.pick(&ops);
                let args: Vec<String> = l.sigs[&op].real_params().iter().map(|p| if p.is_float() { "1.5".to_string() } else { "3".to_string() }).collect();
                Some((op, args.join(", ")))
            };
            let ecl = cached_lang(game, truth::LanguageKey::Ecl);
            let tl = cached_lang(game, truth::LanguageKey::Timeline);
            if let (Some((eop, eargs)), Some((top, targs))) = (pick_op(&ecl, tape), pick_op(&tl, tape)) {
                let pool = ["spawn", "fire", "wait"];
                let (ne, nt) = (*tape.pick(&pool), *tape.pick(&pool));
                let use_in = tape.below(3); // 0: both, 1: sub only, 2: timeline only
                return json!({"mode": "two-languages", "game": game, "ecl_op": eop, "ecl_args": eargs, "tl_op": top, "tl_args": targs, "ecl_name": ne, "tl_name": nt, "use_in": use_in});
            }
        }
        let mut names: Vec<&str> = POOL.to_vec();
        names.extend(ALIASES); names.extend(BUILTINS);
        // biased pool: mostly the small pool so that collisions are frequent
        let mut weighted: Vec<&str> = vec![]; for _ in 0..3 { weighted.extend(POOL); } weighted.extend(ALIASES); weighted.extend(BUILTINS);
        let mut budget = tier.pick(14, 24);
        let globals: Vec<String> = ALIASES.iter().chain(BUILTINS.iter()).map(|s| s.to_string()).collect();
        // sometimes the mapfile declares enum consts: one spelled like a register alias, one like a pool name, one fresh
        let enums: Vec<String> = if tape.chance(1, 3) { let mut v = vec![]; if tape.bool() { v.push((*tape.pick(ALIASES)).to_string()); } if tape.chance(1, 3) { v.push((*tape.pick(POOL)).to_string()); } if v.is_empty() || tape.bool() { v.push("ek".to_string()); } v } else { vec![] };
        if !enums.is_empty() { weighted.push("ek"); for e in &enums { if e == "ek" { weighted.push("ek"); } } }
        let with_fns = tape.bool();
        FNS.with(|f| f.set(with_fns));
        let b = gen_block(tape, 3, &mut budget, &weighted, &globals);
        FNS.with(|f| f.set(false));
        json!({"tree": s_to_json(&b), "functions": with_fns, "enums": enums})
    }

    fn check(&self, case: &Value, ctx: &mut CheckCtx) -> Outcome {
        if case["mode"] == "two-languages" { return check_two_languages(case, ctx); }
        let tree = s_from_json(&case["tree"]);
        let mut text = String::from("{\n"); print_block(&tree, 1, &mut text); text.push_str("}\n");
        let enums: Vec<String> = case["enums"].as_array().map(|a| a.iter().map(|x| x.as_str().unwrap().to_string()).collect()).unwrap_or_default();
        ENUMS.with(|e| *e.borrow_mut() = enums.clone());
        let m = run_model(&tree);
        ENUMS.with(|e| e.borrow_mut().clear());
        if !enums.is_empty() { ctx.label("enum-consts"); }
        if enums.iter().any(|e| ALIASES.contains(&e.as_str())) && m.occ.iter().any(|(_, r)| matches!(r, Res::Global(g) if g.starts_with("enum:") && ALIASES.contains(&&g[5..]))) { ctx.label("enum-const-shadows-alias"); ctx.nontrivial(); }
        let enum_section = |prefix: &str| -> String { if enums.is_empty() { String::new() } else { format!("!enum(name=\"TestEnum\")\n{}", enums.iter().enumerate().map(|(i, n)| format!("{} {}{}\n", 40 + i, prefix, n)).collect::<String>()) } };
        let model_ok = m.errors == 0;
        ctx.label(if model_ok { "model:ok" } else { "model:error" });
        if m.shadow { ctx.label("shadowing"); }
        if m.forward { ctx.label("forward_ref"); }
        if m.redeclared { ctx.label("redeclared"); }
        if m.barrier_use { ctx.label("const_barrier_use"); }
        if m.fn_barrier_use { ctx.label("function_barrier_use"); }
        if case["functions"] == true { ctx.label("functions"); }
        if m.shadow || m.forward || m.barrier_use { ctx.nontrivial(); }
        let unspecified = m.occ.iter().any(|(_, r)| *r == Res::Unspecified);
        if unspecified { ctx.label("unspecified_shape"); }
        let spec = default_lang();
        let hooks = spec.hooks();
        let mut all_names: Vec<&str> = POOL.to_vec(); all_names.extend(ALIASES); all_names.extend(BUILTINS); all_names.extend(FPOOL); all_names.push("ek");
        let tokens = ident_tokens(&text, &all_names);
        if tokens.len() != m.occ.len() || tokens.iter().zip(m.occ.iter()).any(|(t, o)| t.1 != o.0) { return Outcome::Discard("harness: token/occurrence mismatch".into()); }

        let r = tx::with_truth(|truth| -> Outcome {
            if truth.apply_mapfile_str(&format!("{}{}", spec.mapfile_text(), enum_section("")), truth::Game::Th10).is_err() { return Outcome::Discard("mapfile".into()); }
            let mut block = match truth.parse::<ast::Block>("<input>", text.as_bytes()) { Ok(b) => b.value, Err(e) => { e.ignore(); return Outcome::Fail(Failure::new("c10:parse-error", format!("{}\n{}", tx::diags(truth), text))); } };
            let c = truth.ctx();
            if let Err(e) = truth::passes::resolution::assign_languages(&mut block, truth::LanguageKey::Anm, c) { e.ignore(); return Outcome::Discard("assign_languages".into()); }
            let res = truth::passes::resolution::resolve_names(&block, c);
            let ok = match res { Ok(()) => true, Err(e) => { e.ignore(); false } };
            let d = tx::diags(truth);
            if !ok && !tx::has_error_diag(&d) { return Outcome::Fail(Failure::new("c10:err-without-diagnostic", text.clone())); }
            if unspecified { return Outcome::Pass; }
            if ok != model_ok {
                return Outcome::Fail(Failure::new(if ok { "c10:accepts-but-model-rejects" } else { "c10:rejects-but-model-accepts" }, format!("model errors: {:?}\n{}\n{}", m.occ.iter().filter(|(_, r)| matches!(r, Res::Error(_))).collect::<Vec<_>>(), d, text)));
            }
            if !ok { return Outcome::Pass; }
            // definition classes
            let occs = truth_occurrences(&block, truth.ctx());
            let mut by_off: BTreeMap<usize, Option<u32>> = BTreeMap::new();
            for (off, _, def) in &occs { by_off.insert(*off, *def); }
            let mut class_of_def: BTreeMap<u32, String> = BTreeMap::new();
            let mut def_of_class: BTreeMap<String, u32> = BTreeMap::new();
            for ((off, name), (_, r)) in tokens.iter().zip(m.occ.iter()) {
                if *r == Res::Unchecked { continue; }
                let Some(def) = by_off.get(off).copied().flatten() else { return Outcome::Fail(Failure::new("c10:occurrence-unresolved", format!("`{}` at byte {} has no definition after successful resolution\n{}", name, off, text))); };
                let class = match r { Res::Decl(d) => format!("decl:{}", d), Res::Global(g) => g.clone(), _ => continue };
                if let Some(c0) = class_of_def.get(&def) { if *c0 != class { return Outcome::Fail(Failure::new("c10:two-declarations-share-a-definition", format!("`{}` at byte {}: truth gives it the definition of {} but the model says {}\n{}", name, off, c0, class, text))); } }
                if let Some(d0) = def_of_class.get(&class) { if *d0 != def { return Outcome::Fail(Failure::new("c10:resolves-to-other-declaration", format!("`{}` at byte {} should refer to {} (DefId {}), truth resolved it to DefId {}\n{}", name, off, class, d0, def, text))); } }
                class_of_def.insert(def, class.clone()); def_of_class.insert(class, def);
            }
            Outcome::Pass
        });
        if !matches!(r, Outcome::Pass) || !model_ok || unspecified { return r; }
        // (2) renaming
        let mut k = 0; let mut fresh = BTreeMap::new();
        let renamed = rename(&tree, &m.occ, &mut k, &mut fresh);
        let mut text2 = String::from("{\n"); print_block(&renamed, 1, &mut text2); text2.push_str("}\n");
        let compile = |t: &str, prefix: &str| tx::with_truth(|truth| tx::compile_body_with(truth, &format!("{}{}", spec.mapfile_text(), enum_section(prefix)), truth::Game::Th10, &hooks, t, tx::PipeOpts::default()).map(|c| tx::to_minstrs(&c.instrs)).map_err(|s| format!("{:?}: {}", s, tx::diags(truth).lines().next().unwrap_or("").to_string())));
        let (a, b) = (compile(&text, ""), compile(&text2, "fresh_enum_"));
        match (a, b) {
            (Ok(x), Ok(y)) => { ctx.label("renamed_compiled"); if x == y { Outcome::Pass } else { Outcome::Fail(Failure::new("c10:renaming-changes-output", format!("{}\n---\n{}\n{}\nvs\n{}", text, text2, super::c02::dump(&x), super::c02::dump(&y)))) } }
            (Err(x), Err(y)) => { if x.split(':').next() == y.split(':').next() { Outcome::Pass } else { Outcome::Fail(Failure::new("c10:renaming-changes-failure-stage", format!("{} vs {}\n{}\n---\n{}", x, y, text, text2))) } }
            (Ok(_), Err(y)) => Outcome::Fail(Failure::new("c10:renaming-breaks-compilation", format!("{}\n{}\n---\n{}", y, text, text2))),
            (Err(x), Ok(_)) => Outcome::Fail(Failure::new("c10:renaming-fixes-compilation", format!("{}\n{}\n---\n{}", x, text, text2))),
        }
    }
}


/// Aliases of two languages in one file: compile with the given (possibly identical) spellings, with distinct fresh
/// spellings, and with raw `ins_N` syntax; all three must agree (Ok/Err and bytes).
fn check_two_languages(case: &Value, ctx: &mut CheckCtx) -> Outcome {
    use crate::files::{self, Fmt};
    let game = case["game"].as_str().unwrap();
    let g = files::game_from_str(game);
    let (eop, top) = (case["ecl_op"].as_u64().unwrap(), case["tl_op"].as_u64().unwrap());
    let (eargs, targs) = (case["ecl_args"].as_str().unwrap(), case["tl_args"].as_str().unwrap());
    let use_in = case["use_in"].as_u64().unwrap_or(0);
    ctx.label("two-languages");
    if case["ecl_name"] == case["tl_name"] { ctx.label("two-languages:same-spelling"); ctx.nontrivial(); }
    let build = |ne: &str, nt: &str, raw: bool| -> (String, Vec<String>) {
        let ecall = if raw { format!("ins_{}({});", eop, eargs) } else { format!("{}({});", ne, eargs) };
        let tcall = if raw { format!("ins_{}({});", top, targs) } else { format!("{}({});", nt, targs) };
        let text = format!("script timeline0 {{\n{}}}\n\nvoid Sub0() {{\n{}}}\n", if use_in != 1 { format!("    {}\n", tcall) } else { String::new() }, if use_in != 2 { format!("    {}\n", ecall) } else { String::new() });
        let map = format!("!eclmap\n!ins_names\n{} {}\n!timeline_ins_names\n{} {}\n", eop, ne, top, nt);
        (text, if raw { vec![] } else { vec![map] })
    };
    let run = |text: &str, maps: &[String]| tx::with_truth(|truth| files::compile_file(truth, Fmt::Ecl, g, text.as_bytes(), maps, vec![]).map(|c| c.bytes).map_err(|s| format!("{:?}: {}", s, tx::diags(truth).lines().take(6).collect::<Vec<_>>().join(" / "))));
    let (t1, m1) = build(case["ecl_name"].as_str().unwrap(), case["tl_name"].as_str().unwrap(), false);
    let (t2, m2) = build("aliasForEcl", "aliasForTimeline", false);
    let (t3, m3) = build("", "", true);
    let (r1, r2, r3) = (run(&t1, &m1), run(&t2, &m2), run(&t3, &m3));
    let same = |a: &Result<Vec<u8>, String>, b: &Result<Vec<u8>, String>| match (a, b) { (Ok(x), Ok(y)) => x == y, (Err(_), Err(_)) => true, _ => false };
    if !same(&r1, &r2) || !same(&r2, &r3) {
        let d = |r: &Result<Vec<u8>, String>| match r { Ok(b) => format!("ok, {} bytes", b.len()), Err(e) => format!("error: {}", e.chars().take(300).collect::<String>()) };
        return Outcome::Fail(Failure::new("c10:two-languages:spelling-changes-the-result", format!("game {}: the same program gives different results depending on how the instruction aliases of the two languages are spelled\n  as written : {}\n  fresh names: {}\n  raw ins_N  : {}\n--- mapfile:\n{}--- source:\n{}", game, d(&r1), d(&r2), d(&r3), m1[0], t1)));
    }
    Outcome::Pass
}
