//! C20 — a name used in a script compiles to the id its target has in the output file.
use serde_json::{json, Value};
use crate::engine::*;
use crate::files::{self, FileStruct, Fmt};
use crate::gen::files::*;
use crate::tx;
use truth::llir::RawInstr;

pub struct C20;

fn marker_blob(k: usize) -> String { format!("{:02x}{:02x}a55a", k & 0xff, (k >> 8) & 0xff) }
fn marker_of(i: &RawInstr) -> Option<usize> { let b = &i.args_blob; if b.len() == 4 && b[2] == 0xa5 && b[3] == 0x5a { Some(b[0] as usize | (b[1] as usize) << 8) } else { None } }
fn first_i32(i: &RawInstr) -> Option<i32> { i.args_blob.get(0..4).map(|b| i32::from_le_bytes([b[0], b[1], b[2], b[3]])) }

/// opcodes of `lang` whose first real parameter has format character `ch` (and which have no jump parameters)
fn ops_with_first(lang: &RealLang, ch: char) -> Vec<(u16, usize, bool)> {
    lang.sigs.iter().filter_map(|(op, sig)| {
        if lang.intrinsic_ops.contains(op) { return None; }
        let real = sig.real_params();
        let first = real.first()?;
        let is = first.ch == ch || (ch == 'E' && first.arg0);
        if is && !first.is_string() { Some((*op, real.len(), first.arg0)) } else { None }
    }).collect()
}

fn call_with_name(op: u16, nparams: usize, name: &str, lang: &RealLang) -> String {
    let sig = &lang.sigs[&op];
    let rest: Vec<String> = sig.real_params().iter().skip(1).map(|p| if p.is_float() { "0.0".to_string() } else if p.is_string() { "\"\"".to_string() } else { "0".to_string() }).collect();
    let _ = nparams;
    if rest.is_empty() { format!("ins_{}({});", op, name) } else { format!("ins_{}({}, {});", op, name, rest.join(", ")) }
}

impl Property for C20 {
    fn id(&self) -> &'static str { "C20" }
    fn rule(&self) -> &'static str {
        "ANM files with 1..3 entries, sprites with explicit ids anywhere (increasing, decreasing, duplicate, constant expressions), names repeated across entries (same id: legal; different id: must be an error), scripts with explicit numbers in any order, and sprite / script names used as instruction arguments before and after their definition; STD files whose instances name objects in any order; MSG / END files with sparse tables, a default entry, explicitly empty slots and shared scripts; ANM scripts carrying the name of a sprite; pre-TH10 ECL files whose timelines and subs call subs by name; TH10+ ECL files whose instructions name subs by string: every thing carries a unique marker (sprite width, object layer, a marker instruction), so the check finds in the re-read output file the id / index / script that the written number designates and compares it with the named thing; sprite ids also against the harness's own numbering model; unknown names and conflicting definitions must be rejected with an error. non-trivial = at least one name reference resolved in the written file"
    }
    fn tape_len(&self, tier: Tier) -> usize { tier.pick(250, 400) }
    fn cases(&self, tier: Tier) -> u32 { tier.pick(120_000, 3_000_000) }
    fn required_labels(&self, _tier: Tier) -> Vec<&'static str> { vec!["fmt:anm", "fmt:std", "fmt:msg", "fmt:ecl", "sprite-ref", "script-ref", "sub-ref", "modern-sub-ref", "timeline-sub-ref", "instance-ref", "table-ref", "default-entry", "empty-table-slot", "explicit-id", "decreasing-id", "dup-name-same-id", "sprite-script-shared-name", "forward-ref", "must-reject:unknown-name", "must-reject:conflict"] }
    fn max_discard_fraction(&self) -> f64 { 0.1 }

    fn generate(&self, tape: &mut Tape, _tier: Tier, _known: &Known) -> Value {
        let bad = if tape.chance(1, 10) { Some(*tape.pick(&["unknown-name", "conflict"])) } else { None };
        match tape.below(10) {
            0..=3 => {
                // ANM
                let game = *tape.pick(&["th07", "th08", "th10", "th12", "th14", "th17", "th18", "th06"]);
                let lang = cached_lang(game, truth::LanguageKey::Anm);
                let sprite_ops = ops_with_first(&lang, 'n');
                let script_ops = ops_with_first(&lang, 'N');
                let nentries = 1 + tape.below(3);
                let mut sprites: Vec<Value> = vec![]; // {name, marker, id(model), entry}
                let mut next_id: i64 = 0;
                let mut k = 0usize;
                let mut entries_text: Vec<String> = vec![];
                let mut feats: Vec<&str> = vec![];
                let mut conflict_done = false;
                for e in 0..nentries {
                    let n = tape.below(4);
                    let mut items = vec![];
                    let mut items_names: Vec<String> = vec![];
                    for _ in 0..n {
                        k += 1;
                        // (a name may be repeated in another entry, not within one: that is a duplicate metadata key)
                        let earlier: Vec<Value> = sprites.iter().filter(|s| s["entry"].as_u64() != Some(e as u64) && !items_names.contains(&s["name"].as_str().unwrap().to_string())).cloned().collect();
                        let reuse = !earlier.is_empty() && tape.chance(1, 5);
                        let (name, id_text, id): (String, String, i64) = if reuse {
                            // same name again: legal only with the same id
                            let prev = tape.pick(&earlier).clone();
                            let pid = prev["id"].as_i64().unwrap();
                            if bad == Some("conflict") && !conflict_done { conflict_done = true; (prev["name"].as_str().unwrap().to_string(), format!("id: {}, ", pid + 1), pid + 1) }
                            else { feats.push("dup-name-same-id"); (prev["name"].as_str().unwrap().to_string(), format!("id: {}, ", pid), pid) }
                        } else {
                            let name = format!("spr{}", k);
                            match tape.below(5) {
                                0 => { feats.push("explicit-id"); let id = next_id + tape.below(5) as i64; (name, format!("id: {}, ", id), id) }
                                1 => { feats.push("explicit-id"); feats.push("decreasing-id"); let id = (next_id - 1 - tape.below(4) as i64).max(0); (name, format!("id: {}, ", id), id) }
                                2 => { feats.push("explicit-id"); let (a, b) = (tape.below(6) as i64, tape.below(6) as i64); (name, format!("id: {} + {} * 2, ", a, b), a + b * 2) }
                                _ => (name, String::new(), next_id),
                            }
                        };
                        next_id = id + 1;
                        items_names.push(name.clone());
                        items.push(format!("{}: {{{}x: 0.0, y: 0.0, w: {}.0, h: 1.0}}", name, id_text, k));
                        sprites.push(json!({"name": name, "marker": k, "id": id, "entry": e}));
                    }
                    entries_text.push(format!("entry {{\n    path: \"e{}.png\",\n    has_data: false,\n    rt_width: 16,\n    rt_height: 16,\n    rt_format: 1,\n    sprites: {{{}}},\n}}\n", e, items.join(", ")));
                }
                // a conflicting redefinition hides the ids of that name: only distinct names are referenced
                let nscripts = 1 + tape.below(4);
                // a script may carry the name of a sprite (two different enums: an `n` argument means the sprite, an `N` argument the script)
                let mut script_names: Vec<String> = vec![];
                for i in 0..nscripts {
                    let cands: Vec<String> = sprites.iter().map(|s| s["name"].as_str().unwrap().to_string()).filter(|n| !script_names.contains(n)).collect();
                    if !cands.is_empty() && tape.chance(1, 4) { feats.push("sprite-script-shared-name"); script_names.push(tape.pick(&cands).clone()); } else { script_names.push(format!("scr{}", i)); }
                }
                let mut scripts_text: Vec<String> = vec![];
                let mut refs: Vec<Value> = vec![];
                let mut dup_script = false;
                for i in 0..nscripts {
                    let mut body = format!("    ins_200(@blob=\"{}\");\n", marker_blob(i + 1));
                    for _ in 0..tape.below(4) {
                        if !sprite_ops.is_empty() && !sprites.is_empty() && tape.bool() {
                            let (op, np, _) = *tape.pick(&sprite_ops);
                            let s = tape.pick(&sprites).clone();
                            let name = if bad == Some("unknown-name") && tape.chance(1, 2) { "nosuchsprite".to_string() } else { s["name"].as_str().unwrap().to_string() };
                            body.push_str(&format!("    {}\n", call_with_name(op, np, &name, &lang)));
                            refs.push(json!({"script": i, "kind": "sprite", "name": name, "op": op}));
                        } else if !script_ops.is_empty() {
                            let (op, np, _) = *tape.pick(&script_ops);
                            let j = tape.below(nscripts);
                            if j > i { feats.push("forward-ref"); }
                            let name = if bad == Some("unknown-name") && tape.chance(1, 2) { "nosuchscript".to_string() } else { script_names[j].clone() };
                            body.push_str(&format!("    {}\n", call_with_name(op, np, &name, &lang)));
                            refs.push(json!({"script": i, "kind": "script", "name": name, "op": op, "target": j}));
                        }
                    }
                    let num = match tape.below(4) { 0 => format!("{} ", tape.below(20)), _ => String::new() };
                    let dup = bad == Some("conflict") && i > 0 && tape.chance(1, 3);
                    if dup { dup_script = true; }
                    scripts_text.push(format!("script {}{} {{\n{}}}\n", num, if dup { &script_names[0] } else { &script_names[i] }, body));
                }
                // interleave: scripts are spread over the entries
                let mut text = String::new();
                let mut si = 0;
                for (e, et) in entries_text.iter().enumerate() {
                    text.push_str(et);
                    let take = if e + 1 == entries_text.len() { scripts_text.len() - si } else { tape.below(scripts_text.len() - si + 1) };
                    for _ in 0..take { text.push_str(&scripts_text[si]); si += 1; }
                }
                json!({"fmt": "anm", "game": game, "text": text, "sprites": sprites, "refs": refs, "feats": feats, "bad": bad, "dup_script": dup_script})
            }
            4 | 5 => {
                // STD
                let game = *tape.pick(STD_GAMES);
                let old = files::game_from_str(game) < truth::Game::Th095;
                let nobj = 1 + tape.below(5);
                let objs: Vec<String> = (0..nobj).map(|i| format!("        obj{}: {{layer: {}, pos: [0.0, 0.0, 0.0], size: [1.0, 1.0, 1.0], quads: []}}", i, 100 + i)).collect();
                let ninst = tape.below(6);
                let mut insts = vec![]; let mut refs = vec![];
                for _ in 0..ninst {
                    let j = tape.below(nobj);
                    let name = if bad.is_some() && tape.chance(1, 2) { "nosuchobject".to_string() } else { format!("obj{}", j) };
                    insts.push(format!("{} {{pos: [1.0, 2.0, 3.0]}}", name));
                    refs.push(json!({"kind": "instance", "name": name, "marker": 100 + j}));
                }
                let head = if old { "    unknown: 0,\n    stage_name: \"a\",\n    bgm: [{path: \"a\", name: \"a\"}, {path: \"a\", name: \"a\"}, {path: \"a\", name: \"a\"}, {path: \"a\", name: \"a\"}],\n".to_string() } else { "    unknown: 0,\n    anm_path: \"a\",\n".to_string() };
                let text = format!("meta {{\n{}    objects: {{\n{}\n    }},\n    instances: [{}],\n}}\n\nscript main {{\n}}\n", head, objs.join(",\n"), insts.join(", "));
                json!({"fmt": "std", "game": game, "text": text, "refs": refs, "feats": [], "bad": bad})
            }
            6 | 7 => {
                // MSG / END
                let fmt = if tape.chance(1, 4) { Fmt::End } else { Fmt::Msg };
                let game = *tape.pick(games_for(fmt));
                let nscripts = 1 + tape.below(4);
                let mut table = vec![]; let mut refs = vec![]; let mut key = 0usize; let mut used = vec![false; nscripts];
                let nkeys = nscripts + tape.below(3);
                let mut null_entries = false;
                for r in 0..nkeys {
                    if r >= nscripts && tape.chance(1, 4) {
                        // an explicitly empty slot: offset 0 (and no flags), NOT the default entry
                        null_entries = true;
                        table.push(format!("        {}: {{script: 0}}", key));
                        refs.push(json!({"kind": "table", "key": key, "name": "<empty slot>", "marker": Value::Null}));
                        key += 1 + if tape.chance(1, 3) { tape.below(3) } else { 0 };
                        continue;
                    }
                    let j = if r < nscripts { r } else { tape.below(nscripts) };
                    used[j] = true;
                    let name = if bad.is_some() && tape.chance(1, 3) { "nosuchscript".to_string() } else { format!("scr{}", j) };
                    table.push(format!("        {}: {{script: \"{}\"}}", key, name));
                    refs.push(json!({"kind": "table", "key": key, "name": name, "marker": j + 1}));
                    key += 1 + if tape.chance(1, 3) { tape.below(3) } else { 0 };
                }
                let mut feats: Vec<&str> = vec![];
                if null_entries { feats.push("empty-table-slot"); }
                let default = if tape.chance(1, 2) { feats.push("default-entry"); let j = tape.below(nscripts); table.push(format!("        default: {{script: \"scr{}\"}}", j)); Some(j + 1) } else { None };
                let max_key = key;
                let mut text = format!("meta {{\n    table: {{\n{}\n    }},\n}}\n\n", table.join(",\n"));
                // scripts in shuffled order
                let mut order: Vec<usize> = (0..nscripts).collect();
                for i in (1..order.len()).rev() { let j = tape.below(i + 1); order.swap(i, j); }
                for j in order { text.push_str(&format!("script scr{} {{\n    ins_200(@blob=\"{}\");\n}}\n\n", j, marker_blob(j + 1))); }
                json!({"fmt": fmt.name(), "game": game, "text": text, "refs": refs, "feats": feats, "bad": bad, "default_marker": default, "max_key": max_key})
            }
            _ if tape.chance(1, 4) => {
                // TH10+ ECL: subs are referred to by NAME (a length-prefixed string argument): the written string must be the
                // name of a sub of the same file
                let game = *tape.pick(MODERN_ECL_GAMES);
                let lang = cached_lang(game, truth::LanguageKey::Ecl);
                let ops: Vec<u16> = lang.sigs.iter().filter(|(op, sig)| !lang.intrinsic_ops.contains(op) && sig.real_params().first().map_or(false, |p| p.ch == 'P') && sig.real_params().iter().filter(|p| p.is_string()).count() == 1 && !sig.params.iter().any(|p| matches!(p.kind, crate::model::codec::PKind::Off | crate::model::codec::PKind::Time))).map(|(o, _)| *o).collect();
                if ops.is_empty() { return json!({"fmt": "ecl", "game": game, "text": "void main() {\n}\n", "refs": [], "feats": [], "bad": Value::Null, "modern": true}); }
                let nsubs = 1 + tape.below(4);
                let names: Vec<String> = (0..nsubs).map(|i| if i == 0 { "main".to_string() } else { format!("{}{}", *tape.pick(&["Boss", "Sub", "MainSub", "a"]), i) }).collect();
                let mut text = String::new(); let mut refs = vec![];
                for i in 0..nsubs {
                    let mut body = String::new();
                    for _ in 0..tape.below(4) {
                        let op = *tape.pick(&ops);
                        let j = tape.below(nsubs);
                        let name = if bad.is_some() && tape.chance(1, 2) { "NoSuchSub".to_string() } else { names[j].clone() };
                        body.push_str(&format!("    {}\n", call_with_name(op, 0, &name, &lang)));
                        refs.push(json!({"kind": "modern-sub", "script": i, "op": op, "name": name}));
                    }
                    text.push_str(&format!("void {}() {{\n{}}}\n\n", names[i], body));
                }
                json!({"fmt": "ecl", "game": game, "text": text, "refs": refs, "feats": ["modern-ecl-sub-name"], "bad": bad, "modern": true, "sub_names": names})
            }
            _ => {
                // ECL
                let game = *tape.pick(ECL_GAMES);
                let lang = cached_lang(game, truth::LanguageKey::Ecl);
                let tl = cached_lang(game, truth::LanguageKey::Timeline);
                let sub_ops = ops_with_first(&lang, 'E');
                let tl_ops = ops_with_first(&tl, 'E');
                let nsubs = 1 + tape.below(4);
                let mut refs = vec![]; let mut feats: Vec<&str> = vec![];
                let mut tl_body = String::new();
                for _ in 0..tape.below(4) {
                    if tl_ops.is_empty() { break; }
                    let (op, np, arg0) = *tape.pick(&tl_ops);
                    let j = tape.below(nsubs);
                    let name = if bad.is_some() && tape.chance(1, 2) { "NoSuchSub".to_string() } else { format!("Sub{}", j) };
                    tl_body.push_str(&format!("    {}\n", call_with_name(op, np, &name, &tl)));
                    refs.push(json!({"script": 0, "timeline": true, "kind": "sub", "name": name, "op": op, "target": j, "arg0": arg0}));
                }
                let mut text = format!("script timeline0 {{\n{}}}\n\n", tl_body);
                for i in 0..nsubs {
                    let mut body = format!("    ins_200(@blob=\"{}\");\n", marker_blob(i + 1));
                    for _ in 0..tape.below(3) {
                        if sub_ops.is_empty() { break; }
                        let (op, np, _) = *tape.pick(&sub_ops);
                        let j = tape.below(nsubs);
                        if j > i { feats.push("forward-ref"); }
                        let name = if bad.is_some() && tape.chance(1, 2) { "NoSuchSub".to_string() } else { format!("Sub{}", j) };
                        body.push_str(&format!("    {}\n", call_with_name(op, np, &name, &lang)));
                        refs.push(json!({"script": i, "timeline": false, "kind": "sub", "name": name, "op": op, "target": j}));
                    }
                    text.push_str(&format!("void Sub{}() {{\n{}}}\n\n", i, body));
                }
                json!({"fmt": "ecl", "game": game, "text": text, "refs": refs, "feats": feats, "bad": bad})
            }
        }
    }

    fn check(&self, case: &Value, ctx: &mut CheckCtx) -> Outcome {
        let fmt = Fmt::parse(case["fmt"].as_str().unwrap());
        let game = case["game"].as_str().unwrap();
        let g = files::game_from_str(game);
        let text = case["text"].as_str().unwrap();
        ctx.label(format!("fmt:{}", if fmt == Fmt::End { "msg" } else { fmt.name() }));
        for f in case["feats"].as_array().cloned().unwrap_or_default() { ctx.label(f.as_str().unwrap_or("").to_string()); }
        let refs = case["refs"].as_array().cloned().unwrap_or_default();
        let unknown_used = refs.iter().any(|r| r["name"].as_str().map_or(false, |n| n.to_lowercase().starts_with("nosuch")));
        let conflict = case["bad"] == "conflict" && (case["dup_script"] == true || text.lines().filter(|l| l.starts_with("script ") && l.ends_with(" scr0 {")).count() > 1 || {
            // a sprite name defined with two different ids
            let sp = case["sprites"].as_array().cloned().unwrap_or_default();
            sp.iter().any(|a| sp.iter().any(|b| a["name"] == b["name"] && a["id"] != b["id"]))
        });
        let compiled = tx::with_truth(|truth| files::compile_file(truth, fmt, g, text.as_bytes(), &[], vec![]).map(|c| c.bytes).map_err(|s| (s, tx::diags(truth))));
        let fail = |sig: &str, msg: String| Outcome::Fail(Failure::new(format!("c20:{}:{}", sig, fmt.name()), format!("game {}: {}\n--- source:\n{}", game, msg, text.chars().take(3000).collect::<String>())));
        let bytes = match compiled {
            Err((s, d)) => {
                if !tx::has_error_diag(&d) { return fail("err-without-diagnostic", format!("{:?}", s)); }
                if unknown_used { ctx.label("must-reject:unknown-name"); return Outcome::Pass; }
                if conflict { ctx.label("must-reject:conflict"); return Outcome::Pass; }
                return fail("valid-names-rejected", format!("every name is defined exactly once (or consistently), but compile failed:\n{}", d.chars().take(1500).collect::<String>()));
            }
            Ok(b) => b,
        };
        if unknown_used { return fail("unknown-name-accepted", "a reference to a name that is not defined anywhere compiled successfully".into()); }
        if conflict { return fail("conflicting-definitions-accepted", "one name is given two different values, but compile succeeded".into()); }
        let file = match tx::with_truth(|truth| files::read_file(truth, fmt, g, &bytes, false).map_err(|_| tx::diags(truth))) { Ok(f) => f, Err(d) => return fail("written-file-unreadable", d.chars().take(500).collect()) };

        match &file {
            FileStruct::Anm(a) => {
                // effective sprite ids in the file, by marker (width)
                let mut file_ids: std::collections::BTreeMap<usize, Vec<i64>> = Default::default();
                let mut next: i64 = 0;
                for e in &a.entries { for s in e.sprites.values() { let id = s.id.map(|x| x as i64).unwrap_or(next); next = id + 1; file_ids.entry(s.size[0] as usize).or_default().push(id); } }
                let model: Vec<(String, usize, i64)> = case["sprites"].as_array().cloned().unwrap_or_default().iter().map(|s| (s["name"].as_str().unwrap().to_string(), s["marker"].as_u64().unwrap() as usize, s["id"].as_i64().unwrap())).collect();
                for (name, marker, id) in &model {
                    // (the reader keeps one sprite per id within an entry, so a marker may be missing when ids collide: only present ones are compared)
                    if let Some(ids) = file_ids.get(marker) { if !ids.contains(id) { return fail("sprite-id", format!("sprite {} should have id {} (explicit id or previous + 1), the written file gives it {:?}", name, id, ids)); } }
                }
                let scripts: Vec<Vec<RawInstr>> = a.entries.iter().flat_map(|e| e.scripts.values().map(|s| s.script.instrs.clone())).collect();
                // script marker -> position in file
                let pos_of_marker: std::collections::BTreeMap<usize, usize> = scripts.iter().enumerate().filter_map(|(i, s)| s.first().and_then(marker_of).map(|m| (m, i))).collect();
                for r in &refs {
                    let si = r["script"].as_u64().unwrap() as usize;
                    let Some(&pos) = pos_of_marker.get(&(si + 1)) else { return fail("script-missing", format!("script scr{} is not in the written file", si)); };
                    let op = r["op"].as_u64().unwrap() as u16;
                    let name = r["name"].as_str().unwrap();
                    for ins in scripts[pos].iter().filter(|i| i.opcode == op) {
                        let Some(v) = first_i32(ins) else { continue };
                        if r["kind"] == "sprite" {
                            ctx.label("sprite-ref"); ctx.nontrivial();
                            let ok_ids: Vec<i64> = model.iter().filter(|(n, _, _)| n == name).map(|(_, _, id)| *id).collect();
                            // several instructions of this opcode may exist in the script: the value must be the id of *some* referenced name with this opcode
                            let all_ok: Vec<i64> = refs.iter().filter(|x| x["script"] == r["script"] && x["op"] == r["op"] && x["kind"] == "sprite").flat_map(|x| model.iter().filter(|(n, _, _)| Some(n.as_str()) == x["name"].as_str()).map(|(_, _, id)| *id).collect::<Vec<_>>()).collect();
                            if !all_ok.contains(&(v as i64)) { return fail("sprite-ref", format!("script scr{}: ins_{} was given sprite name(s) with id(s) {:?} (e.g. {} -> {:?}) but the written argument is {}", si, op, all_ok, name, ok_ids, v)); }
                        } else {
                            ctx.label("script-ref"); ctx.nontrivial();
                            let all_ok: Vec<i64> = refs.iter().filter(|x| x["script"] == r["script"] && x["op"] == r["op"] && x["kind"] == "script").filter_map(|x| pos_of_marker.get(&(x["target"].as_u64().unwrap() as usize + 1)).map(|p| *p as i64)).collect();
                            if !all_ok.contains(&(v as i64)) { return fail("script-ref", format!("script scr{}: ins_{} names script(s) at file position(s) {:?}, the written argument is {}", si, op, all_ok, v)); }
                        }
                    }
                }
            }
            FileStruct::Std(s) => {
                if s.instances.len() != refs.len() { return fail("instance-count", format!("{} instances requested, {} written", refs.len(), s.instances.len())); }
                for (r, inst) in refs.iter().zip(&s.instances) {
                    ctx.label("instance-ref"); ctx.nontrivial();
                    let obj = s.objects.get(&inst.object);
                    match obj { None => return fail("instance-ref", format!("instance refers to {} which is not an object of the written file", inst.object)), Some(o) => if o.layer as u64 != r["marker"].as_u64().unwrap() { return fail("instance-ref", format!("instance of {} was written as an instance of the object with layer {} (expected layer {})", r["name"], o.layer, r["marker"])); } }
                }
            }
            FileStruct::Msg(m) => {
                let marker_of_entry = |idx: usize| -> Option<usize> { let e = m.dense_table.get(idx)?; match &e.script.value { truth::msg::ScriptTableOffset::Name(n) => m.scripts.get(n).and_then(|s| s.instrs.first()).and_then(marker_of), _ => None } };
                for r in &refs {
                    ctx.label("table-ref"); ctx.nontrivial();
                    let key = r["key"].as_u64().unwrap() as usize;
                    let got = marker_of_entry(key);
                    if got.map(|x| x as u64) != r["marker"].as_u64() { return fail("table-ref", format!("table entry {} names {} (marker {}), the written entry points at the script with marker {:?}", key, r["name"], r["marker"], got)); }
                }
                // gaps take the default entry
                if let Some(dm) = case["default_marker"].as_u64() {
                    let keys: Vec<u64> = refs.iter().map(|r| r["key"].as_u64().unwrap()).collect();
                    for idx in 0..m.dense_table.len() { if !keys.contains(&(idx as u64)) { let got = marker_of_entry(idx); if got.map(|x| x as u64) != Some(dm) { return fail("default-entry", format!("table entry {} is not listed, so it takes the default (marker {}), but the written entry points at marker {:?}", idx, dm, got)); } } }
                }
            }
            FileStruct::Ecl(truth::EclFile::Stack(e)) => {
                let names: Vec<String> = case["sub_names"].as_array().map(|a| a.iter().map(|x| x.as_str().unwrap().to_string()).collect()).unwrap_or_default();
                for (i, n) in names.iter().enumerate() {
                    let Some((_, sub)) = e.subs.iter().find(|(k, _)| &k.value == n) else { return fail("sub-missing", format!("sub {} is not in the written file", n)); };
                    // the name arguments of this sub's instructions, in order
                    let want: Vec<&Value> = refs.iter().filter(|r| r["script"].as_u64() == Some(i as u64)).collect();
                    let got: Vec<&RawInstr> = sub.instrs.iter().filter(|ins| want.iter().any(|r| r["op"].as_u64() == Some(ins.opcode as u64))).collect();
                    if want.len() != got.len() { return fail("modern-sub-ref", format!("sub {}: {} calls with a sub name were written for {} in the source", n, got.len(), want.len())); }
                    for (r, ins) in want.iter().zip(&got) {
                        ctx.label("modern-sub-ref"); ctx.nontrivial();
                        // length-prefixed string: u32 length, then the bytes, NUL-padded to a multiple of 4
                        let b = &ins.args_blob;
                        let len = b.get(0..4).map(|x| u32::from_le_bytes([x[0], x[1], x[2], x[3]]) as usize).unwrap_or(0);
                        let bytes = b.get(4..4 + len).unwrap_or(&[]);
                        let s = String::from_utf8_lossy(&bytes[..bytes.iter().position(|c| *c == 0).unwrap_or(bytes.len())]).into_owned();
                        if Some(s.as_str()) != r["name"].as_str() { return fail("modern-sub-ref", format!("sub {}: ins_{} names sub {} but the written name is {:?}", n, ins.opcode, r["name"], s)); }
                        if !e.subs.keys().any(|k| k.value == s) { return fail("modern-sub-ref", format!("sub {}: ins_{} was written with the name {:?}, which is not a sub of the written file", n, ins.opcode, s)); }
                    }
                }
            }
            FileStruct::Ecl(truth::EclFile::Olde(e)) => {
                let subs: Vec<Vec<RawInstr>> = e.subs.values().map(|s| s.instrs.clone()).collect();
                let pos_of_marker: std::collections::BTreeMap<usize, usize> = subs.iter().enumerate().filter_map(|(i, s)| s.first().and_then(marker_of).map(|m| (m, i))).collect();
                for r in &refs {
                    let op = r["op"].as_u64().unwrap() as u16;
                    let timeline = r["timeline"] == true;
                    let instrs: &Vec<RawInstr> = if timeline { match e.timelines.get(0) { Some(t) => &t.instrs, None => return fail("timeline-missing", "no timeline in the written file".into()) } } else { let si = r["script"].as_u64().unwrap() as usize; match pos_of_marker.get(&(si + 1)) { Some(p) => &subs[*p], None => return fail("sub-missing", format!("Sub{} is not in the written file", si)) } };
                    let all_ok: Vec<i64> = refs.iter().filter(|x| x["script"] == r["script"] && x["timeline"] == r["timeline"] && x["op"] == r["op"]).filter_map(|x| pos_of_marker.get(&(x["target"].as_u64().unwrap() as usize + 1)).map(|p| *p as i64)).collect();
                    for ins in instrs.iter().filter(|i| i.opcode == op) {
                        let v = if r["arg0"] == true { ins.extra_arg.map(|x| x as i64) } else { first_i32(ins).map(|x| x as i64) };
                        let Some(v) = v else { continue };
                        ctx.label(if timeline { "timeline-sub-ref" } else { "sub-ref" }); ctx.nontrivial();
                        if !all_ok.contains(&v) { return fail("sub-ref", format!("{}: ins_{} names sub(s) at file position(s) {:?}, the written argument is {}", if timeline { "timeline0".to_string() } else { format!("Sub{}", r["script"]) }, op, all_ok, v)); }
                    }
                }
            }
            _ => {}
        }
        Outcome::Pass
    }
}
