//! C15 — text in string arguments and metadata survives compile and decompile unchanged.
use serde_json::{json, Value};
use truth::ast;
use crate::engine::*;
use crate::files::{self, Fmt};
use crate::gen::files::*;
use crate::gen::prog::fmt_str_lit;
use crate::model::codec::{sjis_decode, sjis_encode, PKind, StrSize};
use crate::props::c03::{file_metas};
use crate::tx;

pub struct C15;

// characters by class
const TRAIL_5C: &[char] = &['ソ', '表', '能', '十', '予', '構', '噂', '貼', '暴', '欺', '申', '禄', '圭', '箪', '蚕'];
const TRAIL_7C: &[char] = &['ポ', '弌', '閏', '骭', '竹', '悴'];
const TRAIL_40_7E_80_FC: &[char] = &['ァ', 'ミ', 'ム', '亜', '院', '黑', '　', '、'];
const KANA_HALF: &[char] = &['ｱ', 'ｲ', 'ﾝ', 'ﾞ', 'ﾟ', '｡', '｢', 'ｰ', 'ｿ', 'ﾀ'];
const FULL: &[char] = &['あ', 'ん', 'ア', 'ヴ', 'Ａ', 'ｚ', '１', '！', '〜', '紅', '魔', '郷', '東', '方', '霊', '夢', '♪', '★', '…', '‥', '∀', 'α', 'Я', '─', '①', '㈱', '髙', '﨑'];
const ASCII_SPECIAL: &[char] = &['"', '\\', '\'', '{', '}', '/', '*', ':', ';', '%', '$', '@', '#', '~', '|', '`', 'w', 'W', 'x', ' '];
const CONTROL: &[char] = &['\t', '\n', '\r', '\u{1}', '\u{1b}', '\u{7f}', '\u{1f}'];
const UNENCODABLE: &[char] = &['é', '😀', '한', '\u{fffd}', 'ñ', '\u{2603}', 'ﬁ'];

pub fn gen_string(t: &mut Tape, allow_bad: bool) -> String {
    let len = match t.below(8) { 0 => 0, 1 => 1, 2 => t.below(6), 3 => *t.pick(&[3usize, 4, 5, 7, 8, 15, 16, 17, 31, 32, 33, 47, 48, 62, 63, 64, 65, 126, 127, 128, 129, 250, 251, 252, 253, 254, 255, 256, 300]), _ => t.below(40) };
    let style = t.below(8);
    let mut s = String::new();
    for _ in 0..len {
        let c = match if style < 4 { style } else { t.below(8) } {
            0 => (b' ' + t.below(95) as u8) as char,
            1 => *t.pick(TRAIL_5C),
            2 => *t.pick(FULL),
            3 => *t.pick(KANA_HALF),
            4 => *t.pick(TRAIL_7C),
            5 => *t.pick(TRAIL_40_7E_80_FC),
            6 => *t.pick(ASCII_SPECIAL),
            _ => if t.chance(1, 3) { *t.pick(CONTROL) } else { (b'a' + t.below(26) as u8) as char },
        };
        s.push(c);
    }
    if allow_bad && t.chance(1, 12) && !s.is_empty() { let i = t.below(s.chars().count()); let c = *t.pick(UNENCODABLE); s = s.chars().enumerate().map(|(j, x)| if j == i { c } else { x }).collect(); }
    s
}

/// encodable and decodes back to itself ("represented unambiguously")
pub fn unambiguous(s: &str) -> bool { !s.contains('\0') && sjis_encode(s).and_then(|b| sjis_decode(&b)).map_or(false, |d| d == s) }

struct LitCollector { out: Vec<String> }
impl ast::Visit for LitCollector {
    fn visit_expr(&mut self, e: &truth::Sp<ast::Expr>) {
        if let ast::Expr::LitString(s) = &e.value { self.out.push(s.string.clone()); }
        ast::walk_expr(self, e);
    }
    // metas are compared separately
    fn visit_item(&mut self, item: &truth::Sp<ast::Item>) { if !matches!(item.value, ast::Item::Meta { .. }) { ast::walk_item(self, item); } }
}

pub fn script_string_literals(f: &ast::ScriptFile) -> Vec<String> {
    use ast::Visitable;
    let mut c = LitCollector { out: vec![] };
    f.visit_with(&mut c);
    c.out
}

fn meta_strings(v: &Value, out: &mut Vec<String>) {
    match v { Value::String(s) => out.push(s.clone()), Value::Array(a) => for x in a { meta_strings(x, out) }, Value::Object(o) => for (k, x) in o { if k != "$variant" && k != "script" { meta_strings(x, out) } }, _ => {} }
}

/// the user-defined string signatures exercised through a mapfile on the MSG language of the game
pub fn gen_user_sig(t: &mut Tape) -> (String, usize) {
    // returns (signature text, "may be rejected when the encoded length reaches" threshold)
    let mask = match t.below(4) { 0 => "".to_string(), 1 => ";mask=0x77,7,16".to_string(), 2 => ";mask=0xaa,0,0".to_string(), _ => format!(";mask={},{},{}", t.below(256), t.below(256), t.below(256)) };
    let furi = if t.chance(1, 4) { ";furibug" } else { "" };
    let mask = if mask.is_empty() && !furi.is_empty() { ";mask=0,0,0".to_string() } else { mask };
    let ch = if mask.is_empty() && furi.is_empty() { "z" } else { "m" };
    match t.below(5) {
        0 | 1 => { let bs = *t.pick(&[1usize, 2, 4, 8, 16]); (format!("{}(bs={}{}{})", ch, bs, mask, furi), 255 - 24) }
        2 => { let len = *t.pick(&[1usize, 2, 4, 16, 34, 48, 64, 128]); let (ch, mask) = if furi.is_empty() { (ch, mask) } else { ("m", if mask == ";mask=0,0,0" { ";mask=1,2,3".to_string() } else { mask }) }; (format!("{}(len={}{})", ch, len, mask), len.saturating_sub(1)) }
        3 => { let len = *t.pick(&[1usize, 4, 16, 48]); let (ch, mask) = if furi.is_empty() { (ch, mask) } else { ("m", mask) }; (format!("{}(len={};nulless{})", ch, len, mask), len) }
        _ => { let bs = *t.pick(&[1usize, 4, 16]); (format!("p(bs={})", bs), 255 - 24) }
    }
}

impl Property for C15 {
    fn id(&self) -> &'static str { "C15" }
    fn rule(&self) -> &'static str {
        "strings of 0..300 characters over ASCII (incl. quotes, backslashes, controls), half/full-width kana, kanji and symbols, biased to characters whose Shift-JIS trail byte is 0x5C / 0x7C / 0x40 / 0x7E / 0x80 / 0xFC or whose bytes meet a mask byte, and to lengths around block and buffer boundaries; used (a) as arguments of every built-in MSG / END instruction with a string parameter in TH06..TH18 (incl. masked and furigana-quirk encodings; up to 5 consecutive strings per script), (b) under user signatures z/m/p with bs= / len= / nulless / mask= / furibug given in a mapfile, (c) as ANM paths (1..3 entries, path and path_2 per entry), STD stage / BGM / ANM names and mission text lines: compile Ok => decompile Ok and every string comes back identical (compared with the generator's own string, in order); a string with an unencodable character must be rejected; a rejection needs an error diagnostic and either an unencodable character or an encoded length at the context's capacity. non-trivial = compile Ok with at least one multi-byte or special character"
    }
    fn tape_len(&self, tier: Tier) -> usize { tier.pick(400, 500) }
    fn cases(&self, tier: Tier) -> u32 { tier.pick(200_000, 4_000_000) }
    fn required_labels(&self, _tier: Tier) -> Vec<&'static str> { vec!["ctx:msg-builtin", "ctx:user-sig", "ctx:anm-path", "multi-entry", "ctx:std-names", "ctx:mission-text", "compile:ok", "compile:rejected", "unencodable", "trail5c", "len>=128", "masked", "furibug", "furigana-then-string", "fixed-len", "pascal"] }
    fn max_discard_fraction(&self) -> f64 { 0.1 }

    fn generate(&self, tape: &mut Tape, _tier: Tier, _known: &Known) -> Value {
        let ctx = tape.below(10);
        if ctx < 4 {
            // (a) built-in MSG / END string instructions
            let fmt = if tape.chance(1, 5) { Fmt::End } else { Fmt::Msg };
            let game = *tape.pick(games_for(fmt));
            let lang = cached_lang(game, if fmt == Fmt::Msg { truth::LanguageKey::Msg } else { truth::LanguageKey::End });
            let ops: Vec<(u16, usize)> = lang.sigs.iter().filter_map(|(op, sig)| { let real = sig.real_params(); real.iter().position(|p| p.is_string()).map(|i| (*op, i)) }).collect();
            if ops.is_empty() { return json!({"ctx": "none"}); }
            let n = 1 + tape.below(5);
            let mut strings = vec![]; let mut body = String::new(); let mut caps = vec![]; let mut feats = vec![];
            for _ in 0..n {
                let (op, _) = *tape.pick(&ops);
                let sig = &lang.sigs[&op];
                let s = gen_string(tape, true);
                let s = if tape.chance(1, 4) { format!("|{}", s) } else { s }; // a furigana line: arms the furigana quirk for the next string
                let args: Vec<String> = sig.real_params().iter().map(|p| match &p.kind { PKind::Str { size, mask, furibug } => { if *mask != [0, 0, 0] { feats.push("masked"); } if *furibug { feats.push("furibug"); } caps.push(match size { StrSize::Fixed { len, nulless } => { feats.push("fixed-len"); if *nulless { *len } else { len.saturating_sub(1) } }, _ => 255 - 24 }); fmt_str_lit(&s) } PKind::Float => "0.0".into(), _ => "0".into() }).collect();
                body.push_str(&format!("    ins_{}({});\n", op, args.join(", ")));
                strings.push(s);
            }
            let text = format!("meta {{\n    table: {{\n        0: {{script: \"script0\"}}\n    }},\n}}\n\nscript script0 {{\n{}}}\n", body);
            return json!({"ctx": "msg-builtin", "fmt": fmt.name(), "game": game, "text": text, "strings": strings, "caps": caps, "feats": feats});
        }
        if ctx < 7 {
            // (b) user signatures
            let game = *tape.pick(MSG_GAMES);
            let n = 1 + tape.below(4);
            let mut map = String::from("!msgmap\n!ins_signatures\n");
            let mut strings = vec![]; let mut body = String::new(); let mut caps = vec![]; let mut feats: Vec<&str> = vec![];
            for i in 0..n {
                let (sig, cap) = gen_user_sig(tape);
                if sig.contains("mask") { feats.push("masked"); } if sig.contains("furibug") { feats.push("furibug"); } if sig.contains("len=") { feats.push("fixed-len"); } if sig.starts_with('p') { feats.push("pascal"); }
                let prefix = if sig.contains("len=") && tape.chance(1, 2) { "S" } else { "" };
                map.push_str(&format!("{} {}{}\n", 200 + i, prefix, sig));
                let s = gen_string(tape, true);
                let s = if tape.chance(1, 4) { format!("|{}", s) } else { s };
                body.push_str(&format!("    ins_{}({}{});\n", 200 + i, if prefix.is_empty() { "" } else { "7, " }, fmt_str_lit(&s)));
                strings.push(s); caps.push(cap);
            }
            let text = format!("meta {{\n    table: {{\n        0: {{script: \"script0\"}}\n    }},\n}}\n\nscript script0 {{\n{}}}\n", body);
            return json!({"ctx": "user-sig", "fmt": "msg", "game": game, "text": text, "map": map, "strings": strings, "caps": caps, "feats": feats});
        }
        if ctx == 7 {
            let game = *tape.pick(ANM_GAMES);
            let g = files::game_from_str(game);
            // 1..3 entries, each with its own path (and, in the old header formats, sometimes its own secondary path)
            let n = *tape.pick(&[1usize, 2, 1, 3]);
            let mut strings = vec![]; let mut caps = vec![]; let mut text = String::new(); let mut reqs = vec![];
            for _ in 0..n {
                let p1 = gen_string(tape, true);
                strings.push(p1.clone()); caps.push(100000usize);
                let mut req = json!({"path": p1});
                let p2 = if g < truth::Game::Th11 && tape.chance(1, 2) { let p = gen_string(tape, true); strings.push(p.clone()); caps.push(100000); req["path_2"] = json!(p); format!("    path_2: {},\n", fmt_str_lit(&p)) } else { String::new() };
                text.push_str(&format!("entry {{\n    path: {},\n{}    has_data: false,\n    rt_width: 16,\n    rt_height: 16,\n    rt_format: 1,\n    sprites: {{}},\n}}\n\n", fmt_str_lit(&p1), p2));
                reqs.push(req);
            }
            return json!({"ctx": "anm-path", "fmt": "anm", "game": game, "text": text, "strings": strings, "caps": caps, "feats": if n > 1 { vec!["multi-entry"] } else { vec![] }, "req_metas": reqs});
        }
        if ctx == 8 {
            let game = *tape.pick(STD_GAMES);
            let g = files::game_from_str(game);
            let mut strings = vec![];
            let head = if g < truth::Game::Th095 {
                let name = gen_string(tape, true); strings.push(name.clone());
                let bgm: Vec<String> = (0..4).map(|_| { let a = gen_string(tape, false); let b = gen_string(tape, false); let r = format!("{{path: {}, name: {}}}", fmt_str_lit(&a), fmt_str_lit(&b)); strings.push(a); strings.push(b); r }).collect();
                format!("    unknown: 0,\n    stage_name: {},\n    bgm: [{}],\n", fmt_str_lit(&name), bgm.join(", "))
            } else { let p = gen_string(tape, true); strings.push(p.clone()); format!("    unknown: 0,\n    anm_path: {},\n", fmt_str_lit(&p)) };
            let caps: Vec<usize> = strings.iter().map(|_| 127).collect();
            let text = format!("meta {{\n{}    objects: {{}},\n    instances: [],\n}}\n\nscript main {{\n}}\n", head);
            let req = if g < truth::Game::Th095 { json!({"stage_name": strings[0], "bgm": (0..4).map(|i| json!({"path": strings[1 + 2 * i], "name": strings[2 + 2 * i]})).collect::<Vec<_>>()}) } else { json!({"anm_path": strings[0]}) };
            return json!({"ctx": "std-names", "fmt": "std", "game": game, "text": text, "strings": strings, "caps": caps, "feats": [], "req_meta": req});
        }
        let game = *tape.pick(MISSION_GAMES);
        let lines = if game == "th095" { 3 } else { 6 };
        let strings: Vec<String> = (0..lines).map(|_| gen_string(tape, true)).collect();
        let lits: Vec<String> = strings.iter().map(|s| fmt_str_lit(s)).collect();
        let text = if game == "th095" { format!("entry {{\n    stage: 1,\n    scene: 2,\n    face: 0,\n    point: 3,\n    text: [{}],\n}}\n", lits.join(", ")) }
            else { format!("entry {{\n    stage: 1,\n    scene: 2,\n    player: 0,\n    unknown_1: 0,\n    unknown_2: 0,\n    point_1: 0,\n    point_2: 0,\n    furigana: [[0, 0], [0, 0], [3, 4]],\n    text: [{}],\n}}\n", lits.join(", ")) };
        let caps: Vec<usize> = strings.iter().map(|_| 63).collect();
        json!({"ctx": "mission-text", "fmt": "mission", "game": game, "text": text, "strings": strings, "caps": caps, "feats": [], "req_meta": {"text": strings}})
    }

    fn check(&self, case: &Value, ctx: &mut CheckCtx) -> Outcome {
        let which = case["ctx"].as_str().unwrap_or("none");
        if which == "none" { return Outcome::Discard("language has no string instruction".into()); }
        ctx.label(format!("ctx:{}", which));
        let fmt = Fmt::parse(case["fmt"].as_str().unwrap());
        let game = case["game"].as_str().unwrap();
        let g = files::game_from_str(game);
        let text = case["text"].as_str().unwrap();
        let strings: Vec<String> = case["strings"].as_array().unwrap().iter().map(|s| s.as_str().unwrap().to_string()).collect();
        let caps: Vec<usize> = case["caps"].as_array().unwrap().iter().map(|c| c.as_u64().unwrap() as usize).collect();
        for f in case["feats"].as_array().cloned().unwrap_or_default() { ctx.label(f.as_str().unwrap_or("").to_string()); }
        if strings.windows(2).any(|w| w[0].starts_with('|')) && case["feats"].as_array().map_or(false, |a| a.iter().any(|f| f == "furibug")) { ctx.label("furigana-then-string"); }
        let maps: Vec<String> = case["map"].as_str().map(|m| vec![m.to_string()]).unwrap_or_default();
        // classify the strings with the harness's own view of Shift-JIS
        let mut any_unencodable = false; let mut any_at_capacity = false; let mut any_ambiguous = false;
        for (s, cap) in strings.iter().zip(&caps) {
            match sjis_encode(s) {
                None => any_unencodable = true,
                Some(b) => { if b.len() >= *cap { any_at_capacity = true; } if !unambiguous(s) { any_ambiguous = true; } if b.len() >= 128 { ctx.label("len>=128"); } if b.windows(1).any(|w| w[0] == 0x5c) && s.chars().any(|c| TRAIL_5C.contains(&c)) { ctx.label("trail5c"); } }
            }
        }
        // the furigana quirk appends the previous furigana line's whole buffer (which itself may carry the one before it)
        // to the next string: everything carried counts towards the capacity
        let mut carry = 0usize;
        for (i, s) in strings.iter().enumerate() {
            let Some(b) = sjis_encode(s) else { carry = 0; continue; };
            let total = b.len() + 1 + carry;
            if carry > 0 && total + 16 >= caps[i] { any_at_capacity = true; }
            // (a string whose signature lacks `furibug` neither uses nor clears the pending buffer, and block sizes differ per
            //  signature: keep the carry until the next furigana line replaces it - an over-estimate, never an under-estimate)
            carry = if s.starts_with('|') { (total + 15) / 16 * 16 } else { carry };
        }
        if any_unencodable { ctx.label("unencodable"); }
        if any_ambiguous { return Outcome::Discard("string outside the unambiguous Shift-JIS domain".into()); }
        // total size of consecutive string instructions can hit the 255-byte MSG argument limit only per instruction: handled by caps

        let compiled = tx::with_truth(|truth| files::compile_file(truth, fmt, g, text.as_bytes(), &maps, vec![]).map(|c| c.bytes).map_err(|s| (s, tx::diags(truth))));
        let bytes = match compiled {
            Err((s, d)) => {
                ctx.label("compile:rejected");
                if !tx::has_error_diag(&d) { return Outcome::Fail(Failure::new("c15:rejected-without-diagnostic", format!("{:?}\n{}", s, d))); }
                // the signature itself was refused: not an encoding that can be requested
                if matches!(s, files::CStage::Mapfile | files::CStage::Validate) { ctx.label("signature-refused"); return Outcome::Pass; }
                if !any_unencodable && !any_at_capacity {
                    return Outcome::Fail(Failure::new(format!("c15:encodable-string-rejected:{}:{}", which, crate::props::c01::slug(&d)), format!("game {}: all strings are encodable and below the capacity of their context, but compile failed:\n{}\n--- source:\n{}\n{}", game, d.chars().take(1200).collect::<String>(), case["map"].as_str().unwrap_or(""), text.chars().take(2500).collect::<String>())));
                }
                return Outcome::Pass;
            }
            Ok(b) => b,
        };
        ctx.label("compile:ok");
        if any_unencodable { return Outcome::Fail(Failure::new(format!("c15:unencodable-string-accepted:{}", which), format!("game {}: a string with a character that Shift-JIS cannot encode compiled successfully\n{}", game, text.chars().take(2500).collect::<String>()))); }
        if strings.iter().any(|s| s.chars().any(|c| !c.is_ascii_alphanumeric() && c != ' ')) { ctx.nontrivial(); }

        // what the user sees is the printed text: decompile, print, and read the literals back from the text
        let printed = tx::with_truth(|truth| files::decompile_file(truth, fmt, g, &bytes, &truth::DecompileOptions::new(), &maps).map_err(|_| tx::diags(truth)).and_then(|f| tx::format_at(&f, 100)));
        let printed = match printed { Ok(t) => t, Err(d) => return Outcome::Fail(Failure::new(format!("c15:compiled-file-does-not-decompile:{}", which), format!("game {}:\n{}\n--- source:\n{}", game, d.chars().take(1500).collect::<String>(), text.chars().take(2500).collect::<String>()))) };
        let dec = tx::with_truth(|truth| truth.parse::<ast::ScriptFile>("<decompiled>", printed.as_bytes()).map(|f| f.value).map_err(|e| e.ignore()).map(|f| {
            let mut got = vec![];
            let metas = file_metas(&f);
            if matches!(fmt, Fmt::Msg | Fmt::End) { got = script_string_literals(&f); } else { for m in &metas { meta_strings(m, &mut got); } }
            (got, metas, tx::diags(truth))
        }).map_err(|_| tx::diags(truth)));
        if let (Some(req), Ok((_, metas, _))) = (case.get("req_meta"), &dec) {
            // metadata: every requested string must be present, with the same value, at the same place
            let got_meta = metas.get(0).cloned().unwrap_or(json!({}));
            let missing = missing_key(req, &got_meta, "meta");
            let diff = missing.or_else(|| crate::props::c03::meta_subset_diff(req, &got_meta, "meta"));
            return match diff {
                None => Outcome::Pass,
                Some(d) => Outcome::Fail(Failure::new(format!("c15:string-changed:{}", which), format!("game {}: {}\n--- source:\n{}", game, d, text.chars().take(2500).collect::<String>()))),
            };
        }
        if let (Some(reqs), Ok((_, metas, _))) = (case.get("req_metas").and_then(|v| v.as_array()), &dec) {
            // one metadata item per entry, in file order
            if metas.len() != reqs.len() { return Outcome::Fail(Failure::new(format!("c15:string-changed:{}", which), format!("game {}: {} entries requested, {} decompiled\n--- source:\n{}", game, reqs.len(), metas.len(), text.chars().take(2500).collect::<String>()))); }
            for (i, (req, got_meta)) in reqs.iter().zip(metas.iter()).enumerate() {
                let missing = missing_key(req, got_meta, &format!("entry[{}]", i));
                if let Some(d) = missing.or_else(|| crate::props::c03::meta_subset_diff(req, got_meta, &format!("entry[{}]", i))) {
                    return Outcome::Fail(Failure::new(format!("c15:string-changed:{}", which), format!("game {}: {}\n--- source:\n{}", game, d, text.chars().take(2500).collect::<String>())));
                }
            }
            return Outcome::Pass;
        }
        let (got, _m, _d) = match dec { Ok(x) => x, Err(d) => return Outcome::Fail(Failure::new(format!("c15:compiled-file-does-not-decompile:{}", which), format!("game {}:\n{}\n--- source:\n{}", game, d.chars().take(1500).collect::<String>(), text.chars().take(2500).collect::<String>()))) };
        if got != strings {
            let i = got.iter().zip(&strings).position(|(a, b)| a != b).unwrap_or(got.len().min(strings.len()));
            return Outcome::Fail(Failure::new(format!("c15:string-changed:{}", which), format!("game {}: string #{} differs after compile+decompile ({} strings requested, {} read back)\n requested: {:?}\n read back: {:?}\n--- source:\n{}\n{}", game, i, strings.len(), got.len(), strings.get(i), got.get(i), case["map"].as_str().unwrap_or(""), text.chars().take(2500).collect::<String>())));
        }
        Outcome::Pass
    }
}

/// a requested key that the decompiled metadata does not print at all
fn missing_key(req: &Value, got: &Value, path: &str) -> Option<String> {
    match (req, got) {
        (Value::Object(a), Value::Object(b)) => { for (k, v) in a { match b.get(k) { None => return Some(format!("{}.{}: requested {} but the decompiled file has no such field", path, k, v)), Some(w) => if let Some(d) = missing_key(v, w, &format!("{}.{}", path, k)) { return Some(d); } } } None }
        (Value::Array(a), Value::Array(b)) => { for (i, (v, w)) in a.iter().zip(b).enumerate() { if let Some(d) = missing_key(v, w, &format!("{}[{}]", path, i)) { return Some(d); } } None }
        _ => None,
    }
}
