//! C18 — debug info describes the file that was actually written.
use serde_json::{json, Value};
use crate::engine::*;
use crate::files::{self, FileStruct, Fmt};
use crate::gen::files::*;
use crate::props::c01::pick_fmt;
use crate::tx;
use truth::llir::RawInstr;

pub struct C18;

/// M-layout: size in bytes of one written instruction (header + argument bytes), per format.
pub fn instr_size(fmt: Fmt, game: truth::Game, timeline: bool, i: &RawInstr) -> u64 {
    let header = match fmt {
        Fmt::Anm => if game < truth::Game::Th07 { 4 } else { 8 },
        Fmt::Msg | Fmt::End => 4,
        Fmt::Std => 8,
        Fmt::Ecl if game >= truth::Game::Th10 => 16,
        Fmt::Ecl => if timeline { 8 } else { 12 },
        Fmt::Mission => 0,
    };
    header + i.args_blob.len() as u64
}

/// (scripts in the order of `exported-as`, with a flag for timelines)
fn scripts_by_export(f: &FileStruct, exported_as: &Value) -> Option<(Vec<RawInstr>, bool)> {
    let ty = exported_as["type"].as_str()?;
    let index = exported_as["index"].as_u64().map(|x| x as usize);
    match (f, ty) {
        (FileStruct::Anm(a), "anm-script") => a.entries.iter().flat_map(|e| e.scripts.values()).nth(index?).map(|s| (s.script.instrs.clone(), false)),
        (FileStruct::Std(s), "std-script") => Some((s.script.instrs.clone(), false)),
        (FileStruct::Msg(m), "msg-script") => {
            let idx = exported_as["indices"].as_array()?.first()?.as_u64()? as usize;
            let entry = m.dense_table.get(idx)?;
            match &entry.script.value { truth::msg::ScriptTableOffset::Name(name) => m.scripts.get(name).map(|s| (s.instrs.clone(), false)), _ => None }
        }
        (FileStruct::Ecl(truth::EclFile::Olde(e)), "olde-ecl-sub") => e.subs.values().nth(index?).map(|s| (s.instrs.clone(), false)),
        (FileStruct::Ecl(truth::EclFile::Olde(e)), "scl-script") => e.timelines.get(index?).map(|s| (s.instrs.clone(), true)),
        (FileStruct::Ecl(truth::EclFile::Stack(e)), "named-ecl-sub") => { let name = exported_as["name"].as_str()?; e.subs.iter().find(|(k, _)| k.value == name).map(|(_, s)| (s.instrs.clone(), false)) }
        _ => None,
    }
}

const CONST_OPS: &[&str] = &["+", "-", "*"];

impl Property for C18 {
    fn id(&self) -> &'static str { "C18" }
    fn rule(&self) -> &'static str {
        "generated ANM / STD / MSG / END / pre-TH10 ECL sources (variable-size instructions incl. strings and the furigana quirk, difficulty-replicated statements, gotos, loops, if/else, counted loops, labels at block edges) with injected unique-valued locals and global consts; compile with debug info, read the written file back and check, per exported script: one debug instruction per written instruction, each offset = the sum of the sizes of the instructions before it (harness's own size model), end-offset = the script's length, every label offset is an instruction boundary, every user label carries the time in effect where it was written (generator's record), every local's register id occurs in the instruction that stores the local's unique initial value, every const has the value the harness computed and that value is what was written where the const is used. non-trivial = a script with >= 2 instructions of different sizes or a label, local or const"
    }
    fn tape_len(&self, tier: Tier) -> usize { tier.pick(350, 500) }
    fn cases(&self, tier: Tier) -> u32 { tier.pick(300_000, 4_000_000) }
    fn required_labels(&self, _tier: Tier) -> Vec<&'static str> { vec!["fmt:anm", "fmt:std", "fmt:msg", "fmt:end", "fmt:ecl", "scripts-checked", "user-label-time", "local-checked", "const-checked", "const-use-checked", "varying-sizes", "timeline", "modern-ecl"] }
    fn max_discard_fraction(&self) -> f64 { 0.35 }

    fn generate(&self, tape: &mut Tape, tier: Tier, _known: &Known) -> Value {
        let mut fmt = pick_fmt(tape);
        if fmt == Fmt::Mission { fmt = Fmt::Anm; }
        let game = if fmt == Fmt::Ecl && tape.chance(1, 3) { *tape.pick(MODERN_ECL_GAMES) } else { *tape.pick(games_for(fmt)) };
        let f = gen_file(tape, fmt, game, tier.pick(10, 20));
        let language = match fmt { Fmt::Anm => truth::LanguageKey::Anm, Fmt::Ecl => truth::LanguageKey::Ecl, Fmt::Std => truth::LanguageKey::Std, Fmt::Msg => truth::LanguageKey::Msg, _ => truth::LanguageKey::End };
        let lang = cached_lang(game, language);
        // consts
        let nconst = tape.below(3);
        let mut consts = vec![]; let mut prelude_items = String::new();
        for i in 0..nconst {
            let (a, b) = (0x1234_0000i32 + tape.below(50000) as i32, 3 + tape.below(1000) as i32);
            let op = *tape.pick(CONST_OPS);
            let v = match op { "+" => a.wrapping_add(b), "-" => a.wrapping_sub(b), _ => a.wrapping_mul(b) };
            prelude_items.push_str(&format!("const int KC{} = {} {} {};\n", i, a, op, b));
            consts.push(json!({"name": format!("KC{}", i), "value": v}));
        }
        // locals, injected at the start of each script / sub that can hold them
        let mut text = String::new();
        let mut locals: Vec<Value> = vec![];
        let mut script_no = 0usize;
        let can_local = lang.assign_int && !lang.int_regs.is_empty() && matches!(fmt, Fmt::Anm | Fmt::Ecl);
        for line in f.text.lines() {
            text.push_str(line); text.push('\n');
            let is_script = (line.starts_with("script ") && !line.starts_with("script timeline")) || line.starts_with("void ");
            let is_timeline = line.starts_with("script timeline");
            if (is_script || is_timeline) && line.ends_with('{') {
                if is_script && can_local {
                    let n = tape.below(3);
                    for i in 0..n {
                        let use_const = !consts.is_empty() && tape.chance(1, 3);
                        let v: i64 = if use_const { consts[i % consts.len()]["value"].as_i64().unwrap() } else { 0x5A00_0000 + (script_no as i64) * 256 + i as i64 };
                        let init = if use_const { format!("KC{}", i % consts.len()) } else { format!("{}", v) };
                        text.push_str(&format!("    int loc{}_{} = {};\n", script_no, i, init));
                        locals.push(json!({"script": script_no, "name": format!("loc{}_{}", script_no, i), "value": v, "from_const": use_const}));
                    }
                }
                script_no += 1;
            }
        }
        let labels: Vec<Value> = f.labels.iter().map(|ls| Value::Array(ls.iter().map(|(n, t)| json!([n, t])).collect())).collect();
        json!({"fmt": fmt.name(), "game": game, "text": format!("{}{}", prelude_items, text), "labels": labels, "locals": locals, "consts": consts})
    }

    fn check(&self, case: &Value, ctx: &mut CheckCtx) -> Outcome {
        let fmt = Fmt::parse(case["fmt"].as_str().unwrap());
        let game = case["game"].as_str().unwrap();
        let g = files::game_from_str(game);
        let text = case["text"].as_str().unwrap();
        ctx.label(format!("fmt:{}", fmt.name()));
        if fmt == Fmt::Ecl && g >= truth::Game::Th10 { ctx.label("modern-ecl"); }
        let compiled = tx::with_truth(|truth| files::compile_file(truth, fmt, g, text.as_bytes(), &[], vec![]).map(|c| (c.bytes, c.debug_info)).map_err(|s| (s, tx::diags(truth))));
        let (bytes, dbg) = match compiled {
            Ok(x) => x,
            Err((s, d)) => { if !tx::has_error_diag(&d) { return Outcome::Fail(Failure::new("c18:err-without-diagnostic", format!("{:?}", s))); } return Outcome::Discard(format!("source rejected: {}", d.lines().next().unwrap_or("").chars().take(50).collect::<String>())); }
        };
        let file = match tx::with_truth(|truth| files::read_file(truth, fmt, g, &bytes, false).map_err(|_| tx::diags(truth))) { Ok(f) => f, Err(d) => return Outcome::Discard(format!("written file unreadable (C03's subject): {}", d.chars().take(60).collect::<String>())) };
        let fail = |sig: &str, msg: String| Outcome::Fail(Failure::new(format!("c18:{}:{}", sig, fmt.name()), format!("game {}: {}\n--- source:\n{}", game, msg, text.chars().take(3000).collect::<String>())));

        let scripts = dbg["exported-scripts"].as_array().cloned().unwrap_or_default();
        let want_labels = case["labels"].as_array().cloned().unwrap_or_default();
        // user scripts in source order = exported scripts in order (timelines first for ECL, as generated)
        for (si, s) in scripts.iter().enumerate() {
            let Some((instrs, timeline)) = scripts_by_export(&file, &s["exported-as"]) else { return fail("script-not-found", format!("exported script #{} ({}) does not exist in the written file", si, s["exported-as"])); };
            if timeline { ctx.label("timeline"); }
            ctx.label("scripts-checked");
            let mut offs = vec![]; let mut pos = 0u64;
            for i in &instrs { offs.push(pos); pos += instr_size(fmt, g, timeline, i); }
            let sizes: std::collections::BTreeSet<u64> = instrs.iter().map(|i| instr_size(fmt, g, timeline, i)).collect();
            if sizes.len() >= 2 { ctx.label("varying-sizes"); ctx.nontrivial(); }
            let d_instrs = s["instrs"].as_array().cloned().unwrap_or_default();
            if d_instrs.len() != instrs.len() { return fail("instr-count", format!("script #{} {:?}: debug info lists {} instructions, the file has {}", si, s["name"], d_instrs.len(), instrs.len())); }
            for (k, di) in d_instrs.iter().enumerate() {
                if di["offset"].as_u64() != Some(offs[k]) { return fail("instr-offset", format!("script #{} {:?}: instruction #{} starts at byte {} in the file, debug info says {}", si, s["name"], k, offs[k], di["offset"])); }
            }
            if s["end-offset"].as_u64() != Some(pos) { return fail("end-offset", format!("script #{} {:?}: the script is {} bytes long, debug info end-offset is {}", si, s["name"], pos, s["end-offset"])); }
            for l in s["labels"].as_array().cloned().unwrap_or_default() {
                let o = l["offset"].as_u64().unwrap_or(u64::MAX);
                if !(offs.contains(&o) || o == pos) { return fail("label-offset", format!("script #{} {:?}: label {} has offset {}, which is not an instruction boundary", si, s["name"], l["name"], o)); }
                let name = l["name"].as_str().unwrap_or("");
                if !name.starts_with('@') {
                    ctx.nontrivial();
                    if let Some(w) = want_labels.get(si).and_then(|ls| ls.as_array()).and_then(|ls| ls.iter().find(|x| x[0] == name)) {
                        ctx.label("user-label-time");
                        if l["time"].as_i64() != w[1].as_i64() { return fail("label-time", format!("script #{} {:?}: label {} was written where the time is {}, debug info says {}", si, s["name"], name, w[1], l["time"])); }
                        // and the instruction at the label's offset is not earlier than the label
                        if let Some(k) = offs.iter().position(|x| *x == o) { let _ = k; }
                    }
                }
            }
            // locals
            for loc in s["locals"].as_array().cloned().unwrap_or_default() {
                let name = loc["name"].as_str().unwrap_or("");
                let Some(want) = case["locals"].as_array().and_then(|a| a.iter().find(|x| x["name"] == name)) else { continue };
                let reg = loc["bound-to"]["reg"].as_i64().unwrap_or(0) as i32;
                let v = want["value"].as_i64().unwrap() as i32;
                let pat = v.to_le_bytes();
                let as_int = reg.to_le_bytes(); let as_float = (reg as f32).to_le_bytes();
                let holders: Vec<&RawInstr> = instrs.iter().filter(|i| i.args_blob.windows(4).any(|w| w == pat)).collect();
                if holders.is_empty() { return fail("local-init-missing", format!("script {:?}: no written instruction stores the initial value {} of local {}", s["name"], v, name)); }
                ctx.label("local-checked"); ctx.nontrivial();
                // (several locals may share an initial value: one of the storing instructions must name this local's register)
                if !holders.iter().any(|i| i.args_blob.windows(4).any(|w| w == as_int || w == as_float)) {
                    let i = holders[0];
                    return fail("local-register", format!("script {:?}: debug info binds local {} to register {}, but no instruction that stores its initial value {} (e.g. opcode {}, args {:02x?}) mentions that register", s["name"], name, reg, v, i.opcode, i.args_blob));
                }
                if want["from_const"] == true { ctx.label("const-use-checked"); }
            }
        }
        // consts
        for c in case["consts"].as_array().cloned().unwrap_or_default() {
            let name = c["name"].as_str().unwrap();
            let got = dbg["consts"].as_array().and_then(|a| a.iter().find(|x| x["name"] == name)).cloned();
            match got {
                None => return fail("const-missing", format!("const {} is not listed in the debug info", name)),
                Some(gv) => { ctx.label("const-checked"); ctx.nontrivial(); if gv["value"]["int"].as_i64() != c["value"].as_i64() { return fail("const-value", format!("const {} = {} by the harness's arithmetic, debug info says {}", name, c["value"], gv["value"])); } }
            }
        }
        Outcome::Pass
    }
}
