use crate::engine::Property;

pub mod c02;

pub fn all() -> Vec<&'static dyn Property> {
    vec![
        &c02::C02,
    ]
}
