use crate::engine::Property;

pub mod c02;
pub mod c06;

pub fn all() -> Vec<&'static dyn Property> {
    vec![
        &c02::C02,
        &c06::C06,
    ]
}
