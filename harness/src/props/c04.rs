//! C04 — any text input ends in success or a rendered diagnostic, never a crash.
use serde_json::{json, Value};
use crate::engine::*;
use crate::files::{self, Fmt};
use crate::gen::files::*;
use crate::gen::full::{FullCfg, FullGen};
use crate::gen::textmut::*;
use crate::gen::lang::{gen_lang, LangKnobs};
use crate::props::c01::pick_fmt;
use crate::tx;

pub struct C04;

fn bundled_texts() -> Vec<(String, Fmt, String)> {
    let mut out = vec![];
    let dir = "/repo/tests/integration/resources";
    if let Ok(rd) = std::fs::read_dir(dir) {
        let mut names: Vec<String> = rd.filter_map(|e| e.ok()).map(|e| e.file_name().to_string_lossy().to_string()).collect();
        names.sort();
        for n in names { if n.ends_with(".anm.spec") { out.push((format!("{}/{}", dir, n), Fmt::Anm, n.split('-').next().unwrap_or("th12").to_string())); } }
    }
    out
}

fn magic(fmt: Fmt) -> &'static str { match fmt { Fmt::Anm => "!anmmap", Fmt::Std => "!stdmap", Fmt::Msg => "!msgmap", Fmt::End => "!endmap", Fmt::Ecl => "!eclmap", Fmt::Mission => "!anmmap" } }

/// A mapfile text rendered from the built-in table of `(fmt, game)` (a subset of rows), or from a generated test language.
fn gen_mapfile(t: &mut Tape, fmt: Fmt, game: &str) -> String {
    if t.chance(1, 4) {
        let sub = t.fork(120);
        let mut st = Tape::new(&sub);
        let l = gen_lang(&mut st, &LangKnobs { pad_intrinsics: 2, rich: true, anti_scratch: true });
        return l.mapfile_text().replacen("!anmmap", magic(fmt), 1);
    }
    let lang = match fmt.languages().first() { Some(l) => *l, None => truth::LanguageKey::Anm };
    let table = files::core_table(files::game_from_str(game), lang);
    let mut s = format!("{}\n!ins_signatures\n", magic(fmt));
    for (k, v) in &table.sigs { if t.chance(1, 3) { s.push_str(&format!("{} {}\n", k, v)); } }
    s.push_str("!ins_intrinsics\n");
    for (k, v) in &table.intrinsics { if t.chance(1, 2) { s.push_str(&format!("{} {}\n", k, v)); } }
    s.push_str("!gvar_types\n");
    for (k, v) in &table.reg_types { if t.chance(1, 3) { s.push_str(&format!("{} {}\n", k, v)); } }
    s.push_str("!ins_names\n");
    for k in table.sigs.keys() { if t.chance(1, 6) { s.push_str(&format!("{} name{}\n", k, k)); } }
    if t.chance(1, 3) { s.push_str("!difficulty_flags\n0 E\n1 N-\n2 H+\n"); }
    if t.chance(1, 3) { s.push_str("!enum(name=\"color\")\n0 Red\n1 Blue\n!ins_signatures\n900 S(enum=\"color\")\n"); }
    // enum sections that touch the built-in enums and consts (bool's true/false, the automatic sprite / script / sub enums)
    for _ in 0..t.below(3) {
        if !t.chance(1, 3) { continue; }
        s.push_str(&format!("!enum(name=\"{}\")\n", *t.pick(&["bool", "color", "AnmSprite", "AnmScript", "EclSub", "MsgScript", "BitmapColorFormat", "kind"])));
        for _ in 0..(1 + t.below(3)) { s.push_str(&format!("{} {}\n", t.below(7), *t.pick(&["true", "false", "Red", "Blue", "sprite0", "script0", "Sub0", "PI", "NAN", "ins_1", "x"]))); }
    }
    s
}

const MAP_VOCAB: &[&str] = &[
    "S", "s", "U", "u", "C", "c", "b", "f", "n", "N", "E", "o", "t", "_", "-", "z", "m", "p", "z(bs=4)", "z(bs=0)", "z(len=34)", "m(bs=4;mask=0x77,0,0)", "m(len=48;mask=1,2,3;furibug)", "S(imm)", "S(hex)", "S(enum=\"bool\")", "S(enum=\"nope\")", "s(arg0)", "S(imm;hex)",
    "ot", "to", "oo", "SSSSSSSSSSSSSSSSSSSSSSSSSSSSSSSSSSSSSSSSSSSSSSSSSSSSSSSSSSSSSSSSSSSSSSSS", "z(bs=4)S", "p(bs=4)", "(", ")", "S(", "S()", "S(bs=4)", "z(bs=-1)", "z(bs=99999999999)", "z(len=0)", "m(mask=1)", "\"\"",
    "Jmp()", "CountJmp(op=\">\")", "CountJmp(op=\"!=\")", "InterruptLabel()", "AssignOp(op=\"=\";type=\"int\")", "AssignOp(op=\"=\";type=\"string\")", "BinOp(op=\"+\";type=\"int\")", "BinOp(op=\"+\";type=\"float\")", "BinOp(op=\"<<<\";type=\"int\")", "UnOp(op=\"sin\";type=\"float\")", "UnOp(op=\"sin\";type=\"int\")", "CondJmp(op=\"==\";type=\"int\")", "CondJmp2A(type=\"int\")", "CondJmp2B(op=\"==\")", "DedicatedCmp()", "Nonsense()", "Jmp", "Jmp(",
    "!ins_signatures", "!ins_intrinsics", "!gvar_types", "!gvar_names", "!ins_names", "!ins_rets", "!difficulty_flags", "!timeline_ins_signatures", "!timeline_ins_names", "!enum(name=\"x\")", "!enum(name=\"bool\")", "!enum", "!anmmap", "!eclmap", "!stdmap", "!msgmap", "!nonsense", "!",
    "0", "1", "-1", "65535", "65536", "99999999999", "10000", "-10001", "$", "%", "?", "E", "N-", "H+", "X+-", "EE", "if", "int", "ins_1", "REG", "name", "a b", "#", "# comment", "true", "false", "PI", "INF", "NAN", "sprite0", "script0", "\u{feff}", "\0", "é",
];

const SIG_PIECES: &[&str] = &["S", "s", "U", "u", "C", "c", "b", "f", "n", "N", "E", "o", "t", "_", "-", "z(bs=4)", "z(bs=1)", "z(bs=0)", "z(len=34)", "z(len=0)", "m(bs=4;mask=0x77,7,16)", "m(len=48;mask=1,2,3;furibug)", "p(bs=4)", "S(imm)", "S(hex)", "f(imm)", "S(enum=\"bool\")", "S(enum=\"nope\")", "s(arg0)", "S(arg0)", "S(imm;hex)", "z", "m", "S(", ")", "S(bs=4)", "z(bs=-1)", "z(bs=99999999999)", "m(mask=1)", "T", "X"];
const INTRINSICS: &[&str] = &["Jmp()", "CountJmp()", "CountJmp(op=\">\")", "CountJmp(op=\"!=\")", "CountJmp(op=\"<\")", "Interrupt()", "InterruptLabel()", "AssignOp(op=\"=\";type=\"int\")", "AssignOp(op=\"=\";type=\"float\")", "AssignOp(op=\"+=\";type=\"int\")", "AssignOp(op=\"=\";type=\"string\")", "BinOp(op=\"+\";type=\"int\")", "BinOp(op=\"+\";type=\"float\")", "BinOp(op=\"<\";type=\"int\")", "BinOp(op=\"<<<\";type=\"int\")", "UnOp(op=\"sin\";type=\"float\")", "UnOp(op=\"sin\";type=\"int\")", "UnOp(op=\"-\";type=\"int\")", "UnOp(op=\"!\";type=\"int\")", "CondJmp(op=\"==\";type=\"int\")", "CondJmp(op=\">\";type=\"float\")", "DedicatedCmp(type=\"int\")", "DedicatedCmpJmp(op=\"==\")", "CondJmp2A(type=\"int\")", "CondJmp2B(op=\"==\")", "CallEosd()", "CallReg()", "Nonsense()", "Jmp", "Jmp(", "BinOp()", "BinOp(op=\"+\")", "BinOp(type=\"int\";op=\"+\")", "Jmp(op=\"+\")"];
const KEYS: &[&str] = &["0", "1", "2", "3", "-1", "10", "65535", "65536", "99999999999", "10000", "-10001", "2147483647", "-2147483648", "x", "1.5", "0x10", ""];

pub fn gen_map_mutation(t: &mut Tape) -> Value {
    let at = t.below(65536);
    match t.below(10) {
        0 | 1 | 2 => { let n = t.below(6); let sig: String = (0..n).map(|_| *t.pick(SIG_PIECES)).collect(); json!({"op": "line_value", "at": at, "text": sig}) }
        3 | 4 => json!({"op": "line_value", "at": at, "text": *t.pick(INTRINSICS)}),
        5 => json!({"op": "line_value", "at": at, "text": *t.pick(MAP_VOCAB)}),
        6 => json!({"op": "line_key", "at": at, "text": *t.pick(KEYS)}),
        7 => json!({"op": "line_dup", "at": at, "text": if t.bool() { *t.pick(KEYS) } else { "" }}),
        8 => json!({"op": "line_ins", "at": at, "text": *t.pick(&["!ins_signatures", "!ins_intrinsics", "!gvar_types", "!gvar_names", "!ins_names", "!ins_rets", "!difficulty_flags", "!timeline_ins_signatures", "!timeline_ins_names", "!enum(name=\"x\")", "!enum(name=\"bool\")", "!enum", "!enum(name=\")", "!enum(name=\"\")", "!enum(name=", "!enum()", "!enum(name=\"a b\")", "!enum(name=\"1\")", "!enum(name=\"int\")", "!anmmap", "!eclmap", "!nonsense", "!", "", "# comment", "0 E", "1 N-", "8 X", "0 EE"])}),
        _ => gen_text_mutation(t),
    }
}

pub struct Verdict { pub ok: bool, pub stage: Option<files::CStage>, pub diags: String }

/// The compile command, in-process, with mapfiles read from disk.
pub fn run_compile(fmt: Fmt, game: &str, text: &[u8], maps: &[Vec<u8>]) -> Result<Verdict, PanicInfo> {
    let g = files::game_from_str(game);
    let dir = std::path::PathBuf::from(format!("/dev/shm/tv-c04-{}", std::process::id()));
    let _ = std::fs::create_dir_all(&dir);
    let mut paths = vec![];
    for (i, m) in maps.iter().enumerate() { let p = dir.join(format!("map{}.txt", i)); let _ = std::fs::write(&p, m); paths.push(p); }
    ALLOC_LIMIT.store(2 << 30, std::sync::atomic::Ordering::SeqCst);
    let r = catch(|| tx::with_truth(|truth| {
        let r = files::compile_file_ex(truth, fmt, g, text, &[], &paths, vec![]);
        let d = tx::diags(truth);
        Verdict { ok: r.is_ok(), stage: r.err(), diags: d }
    }));
    ALLOC_LIMIT.store(usize::MAX, std::sync::atomic::Ordering::SeqCst);
    let _ = std::fs::remove_dir_all(&dir);
    r
}

pub fn judge(fmt: Fmt, v: &Verdict, ctx: &mut CheckCtx) -> Result<(), Failure> {
    let has_err = tx::has_error_diag(&v.diags);
    if v.ok { ctx.label("compile:ok"); } else { ctx.label("compile:error"); if let Some(s) = v.stage { ctx.label(format!("stage:{:?}", s)); } }
    if v.ok && has_err { return Err(Failure::new(format!("c04:ok-with-error-diagnostic:{}", fmt.name()), format!("compile succeeded but printed an error diagnostic:\n{}", v.diags.chars().take(1500).collect::<String>()))); }
    if !v.ok && !has_err { return Err(Failure::new(format!("c04:err-without-error-diagnostic:{}:{:?}", fmt.name(), v.stage), format!("compile failed at stage {:?} but printed no error-severity diagnostic; diagnostics:\n{}", v.stage, v.diags.chars().take(1500).collect::<String>()))); }
    Ok(())
}

impl Property for C04 {
    fn id(&self) -> &'static str { "C04" }
    fn rule(&self) -> &'static str {
        "texts = (valid generated sources for ANM/STD/MSG/END/mission/ECL | full-grammar random programs | programs nested up to 256 deep | bundled .spec files | short raw byte strings) after 0..4 token-level (delete / duplicate / swap / move / insert or replace by a token from a vocabulary of keywords, operators, extreme literals, malformed strings, pseudo-args, labels / wrap in up to 256 parens, unary ops, brackets, braces) and byte-level (set, delete, truncate; invalid UTF-8, NUL, BOM) mutations, compiled by the same or another tool/game; and mapfiles (built-in tables or generated languages as text, mutated with signature / intrinsic / section vocabulary) loaded from disk before compiling a valid source: compile returns Ok without error diagnostics or Err with >= 1 error diagnostic; a panic (incl. diagnostic rendering failure), abort or stack overflow is a violation; hang = inconclusive. non-trivial = at least one mutation or a non-generated base"
    }
    fn tape_len(&self, tier: Tier) -> usize { tier.pick(300, 500) }
    fn cases(&self, tier: Tier) -> u32 { tier.pick(120_000, 3_000_000) }
    fn required_labels(&self, _tier: Tier) -> Vec<&'static str> { vec!["fmt:anm", "fmt:std", "fmt:msg", "fmt:end", "fmt:mission", "fmt:ecl", "base:valid", "base:grammar", "base:deep", "base:raw", "base:bundled", "mut:stmt", "kind:mapfile", "compile:ok", "compile:error", "stage:Parse", "stage:Compile", "stage:Mapfile", "cross-tool", "depth>=200", "mut:token", "mut:byte"] }
    fn max_discard_fraction(&self) -> f64 { 0.1 }

    fn generate(&self, tape: &mut Tape, tier: Tier, _known: &Known) -> Value {
        let fmt = pick_fmt(tape);
        let game = if fmt == Fmt::Ecl && tape.chance(1, 3) { *tape.pick(MODERN_ECL_GAMES) } else { *tape.pick(games_for(fmt)) };
        let nmut = *tape.pick(&[1usize, 1, 2, 0, 3, 1, 4]);
        if tape.chance(1, 5) {
            // mapfile case
            let map = gen_mapfile(tape, fmt, game);
            let muts: Vec<Value> = (0..nmut).map(|_| gen_map_mutation(tape)).collect();
            let sub = tape.fork(150);
            let mut st = Tape::new(&sub);
            let f = gen_file(&mut st, fmt, game, 5);
            return json!({"kind": "mapfile", "fmt": fmt.name(), "game": game, "map": map, "mutations": muts, "text": f.text});
        }
        let kind = tape.below(12);
        let (base, text) = if kind < 5 {
            let sub = tape.fork(tier.pick(200, 350));
            let mut st = Tape::new(&sub);
            ("valid", gen_file(&mut st, fmt, game, tier.pick(8, 16)).text)
        } else if kind < 8 {
            let mut g = FullGen::new(tape, FullCfg { special_calls: true, items: true, max_depth: 3, big_int_literals: true });
            ("grammar", g.script_file())
        } else if kind < 10 {
            let call = match fmt { Fmt::Anm | Fmt::Std | Fmt::Ecl => "ins_1();", _ => "ins_0();" };
            let (body, depth) = deep_program(tape, call);
            let text = match fmt {
                Fmt::Ecl => format!("script timeline0 {{\n}}\n\nvoid Sub0() {{\n{}}}\n", body),
                Fmt::Msg | Fmt::End => format!("meta {{ table: {{ 0: {{script: \"script0\"}} }} }}\n\nscript script0 {{\n{}}}\n", body),
                Fmt::Anm => format!("entry {{ path: \"a.png\", has_data: false, rt_width: 16, rt_height: 16, rt_format: 1, sprites: {{}} }}\n\nscript script0 {{\n{}}}\n", body),
                Fmt::Std if game < "th095" => format!("meta {{ unknown: 0, stage_name: \"a\", bgm: [{{path: \"a\", name: \"a\"}}, {{path: \"a\", name: \"a\"}}, {{path: \"a\", name: \"a\"}}, {{path: \"a\", name: \"a\"}}], objects: {{}}, instances: [] }}\n\nscript main {{\n{}}}\n", body),
                Fmt::Std => format!("meta {{ unknown: 0, anm_path: \"a\", objects: {{}}, instances: [] }}\n\nscript main {{\n{}}}\n", body),
                Fmt::Mission => format!("entry {{ stage: 1, scene: 1, face: 0, point: 0, text: [{}\"a\"{}, \"b\", \"c\"] }}\n", "[".repeat(depth.min(64)), "]".repeat(depth.min(64))),
            };
            (if depth >= 200 { "deep200" } else { "deep" }, text)
        } else if kind < 11 {
            let all = bundled_texts();
            if all.is_empty() { ("raw", String::new()) } else {
                let (path, _f, _g) = tape.pick(&all).clone();
                return json!({"kind": "source", "base": "bundled", "path": path, "fmt": "anm", "game": "th12", "tool_fmt": "anm", "tool_game": "th12", "mutations": (0..nmut.max(1)).map(|_| gen_text_mutation(tape)).collect::<Vec<_>>()});
            }
        } else {
            let n = *tape.pick(&[0usize, 1, 2, 3, 8, 30]);
            let s: Vec<u8> = (0..n).map(|_| *tape.pick(&[b'{', b'}', b'(', b'"', b'\\', b'\n', 0u8, 0xff, 0xe3, b'a', b'1', b';', b'#', b'/', b'*', b'@', b':', b'+'])).collect();
            ("raw", String::from_utf8_lossy(&s).into_owned())
        };
        let muts: Vec<Value> = if base == "raw" { vec![] } else { (0..nmut).map(|_| gen_text_mutation(tape)).collect() };
        // usually the right tool; sometimes another tool / game
        let (tool_fmt, tool_game) = if tape.chance(1, 8) { let f2 = pick_fmt(tape); (f2, *tape.pick(games_for(f2))) } else { (fmt, game) };
        json!({"kind": "source", "base": base, "fmt": fmt.name(), "game": game, "tool_fmt": tool_fmt.name(), "tool_game": tool_game, "text": text, "mutations": muts})
    }

    fn check(&self, case: &Value, ctx: &mut CheckCtx) -> Outcome {
        let muts = case["mutations"].as_array().cloned().unwrap_or_default();
        for m in &muts { let op = m["op"].as_str().unwrap_or(""); ctx.label(if op.starts_with("line") { "mut:mapline" } else if op == "stmt_ins" { "mut:stmt" } else if op.starts_with("tok") || op == "nest" { "mut:token" } else { "mut:byte" }); if op == "nest" && m["depth"].as_u64().unwrap_or(0) >= 200 { ctx.label("depth>=200"); } }
        if case["kind"] == "mapfile" {
            let fmt = Fmt::parse(case["fmt"].as_str().unwrap());
            let game = case["game"].as_str().unwrap();
            ctx.label("kind:mapfile"); ctx.label(format!("fmt:{}", fmt.name()));
            let mut map = case["map"].as_str().unwrap_or("").as_bytes().to_vec();
            for m in &muts { apply_map_mutation(&mut map, m); }
            if !muts.is_empty() { ctx.nontrivial(); }
            if std::env::var("TV_DUMP_TEXT").is_ok() { eprintln!("{}", String::from_utf8_lossy(&map)); }
            let v = match run_compile(fmt, game, case["text"].as_str().unwrap_or("").as_bytes(), &[map]) { Ok(v) => v, Err(p) => return Outcome::Fail(p.to_failure("c04:mapfile:")) };
            return match judge(fmt, &v, ctx) { Ok(()) => Outcome::Pass, Err(f) => Outcome::Fail(f) };
        }
        let fmt = Fmt::parse(case["tool_fmt"].as_str().unwrap());
        let game = case["tool_game"].as_str().unwrap();
        ctx.label(format!("fmt:{}", fmt.name()));
        let base = case["base"].as_str().unwrap_or("raw");
        if base == "deep200" { ctx.label("depth>=200"); }
        ctx.label(format!("base:{}", if base == "deep200" { "deep" } else { base }));
        if case["fmt"] != case["tool_fmt"] || case["game"] != case["tool_game"] { ctx.label("cross-tool"); }
        let mut text: Vec<u8> = if base == "bundled" {
            match std::fs::read(case["path"].as_str().unwrap()) { Ok(b) => b, Err(e) => return Outcome::Discard(format!("cannot read bundled text: {}", e)) }
        } else { case["text"].as_str().unwrap_or("").as_bytes().to_vec() };
        for m in &muts { apply_text_mutation(&mut text, m); }
        if !muts.is_empty() || base != "valid" { ctx.nontrivial(); }
        if std::env::var("TV_DUMP_TEXT").is_ok() { eprintln!("{}", String::from_utf8_lossy(&text)); }
        let v = match run_compile(fmt, game, &text, &[]) { Ok(v) => v, Err(p) => return Outcome::Fail(p.to_failure("c04:source:")) };
        match judge(fmt, &v, ctx) { Ok(()) => Outcome::Pass, Err(f) => Outcome::Fail(f) }
    }
}

/// The concrete inputs a C04 case stands for: (tool format, game, source bytes, mapfile bytes).
pub fn materialize(case: &Value) -> Option<(Fmt, String, Vec<u8>, Vec<Vec<u8>>)> {
    let muts = case["mutations"].as_array().cloned().unwrap_or_default();
    if case["kind"] == "mapfile" {
        let mut map = case["map"].as_str().unwrap_or("").as_bytes().to_vec();
        for m in &muts { apply_map_mutation(&mut map, m); }
        return Some((Fmt::parse(case["fmt"].as_str()?), case["game"].as_str()?.to_string(), case["text"].as_str().unwrap_or("").as_bytes().to_vec(), vec![map]));
    }
    let base = case["base"].as_str().unwrap_or("raw");
    let mut text: Vec<u8> = if base == "bundled" { std::fs::read(case["path"].as_str()?).ok()? } else { case["text"].as_str().unwrap_or("").as_bytes().to_vec() };
    for m in &muts { apply_text_mutation(&mut text, m); }
    Some((Fmt::parse(case["tool_fmt"].as_str()?), case["tool_game"].as_str()?.to_string(), text, vec![]))
}
