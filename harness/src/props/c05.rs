//! C05 — scratch registers never collide with registers the script uses.
//! Oracle: invariants over the compile result (debug-info bindings + emitted register operands),
//! with the generator's own knowledge of which registers the source mentions and of lexical scopes.
use std::collections::{BTreeMap, BTreeSet};
use serde_json::{json, Value};
use crate::engine::*;
use crate::gen::{body::*, lang::*, prog::*};
use crate::tx;

pub struct C05;

/// (open, close) byte offsets of every `{ .. }` block in text printed by G-prog (difficulty labels `{"..."}` excluded).
pub fn block_ranges(text: &str) -> Vec<(usize, usize)> {
    let b = text.as_bytes();
    let mut stack = vec![];
    let mut out = vec![];
    let mut i = 0;
    let mut in_str = false;
    let mut label_depth = 0usize;
    while i < b.len() {
        let c = b[i];
        if in_str { if c == b'\\' { i += 1; } else if c == b'"' { in_str = false; } i += 1; continue; }
        match c {
            b'"' => in_str = true,
            b'{' => { if i + 1 < b.len() && b[i + 1] == b'"' { label_depth += 1; } else { stack.push(i); } }
            b'}' => { if label_depth > 0 { label_depth -= 1; } else if let Some(o) = stack.pop() { out.push((o, i)); } }
            _ => {}
        }
        i += 1;
    }
    out
}

fn innermost(ranges: &[(usize, usize)], p: usize) -> Option<(usize, usize)> {
    ranges.iter().copied().filter(|(o, c)| *o < p && p < *c).min_by_key(|(o, c)| c - o)
}

/// register operands of emitted instructions (ids of arguments flagged in the parameter mask)
pub fn emitted_regs(spec: &LangSpec, instrs: &[crate::model::machine::MInstr]) -> Result<BTreeSet<i32>, String> {
    let mut out = BTreeSet::new();
    for ins in instrs {
        let Some(sig) = spec.sigs.get(&ins.opcode) else { return Err(format!("no signature for opcode {}", ins.opcode)); };
        let mut pos = 0; let mut bit = 0;
        for ch in sig.chars() {
            match ch {
                '_' => pos += 4,
                _ => {
                    if pos + 4 > ins.blob.len() { return Err("blob too short".into()); }
                    let bits = u32::from_le_bytes([ins.blob[pos], ins.blob[pos + 1], ins.blob[pos + 2], ins.blob[pos + 3]]);
                    if (ins.mask >> bit) & 1 == 1 { out.insert(if ch == 'f' { f32::from_bits(bits) as i32 } else { bits as i32 }); }
                    pos += 4; bit += 1;
                }
            }
        }
    }
    Ok(out)
}

fn all_atoms(body: &[SNode]) -> bool {
    let mut ok = true;
    visit_stmts(body, 0, &mut |s, _| {
        if matches!(s.kind, Stmt::Decl { .. } | Stmt::Times { clobber: None, .. }) { ok = false; }
        for e in stmt_exprs(&s.kind) {
            // conditions may be a single comparison of atoms
            let simple = match e { Expr::Bin(op, a, b) if is_compare(op) => a.is_atom() && b.is_atom(), Expr::PreDec(_) => true, e => e.is_atom() };
            if !simple { ok = false; }
            if let Stmt::Call { .. } | Stmt::Assign { .. } = s.kind { if !e.is_atom() { ok = false; } }
        }
    });
    ok
}

impl Property for C05 {
    fn id(&self) -> &'static str { "C05" }
    fn rule(&self) -> &'static str {
        "generated register-language configuration (scratch pools of 0..4 registers per type, optional anti-scratch instruction) + typed body mentioning registers in every position (assignment targets/sources, aliases and raw spellings, both sigils, difficulty switches, call arguments, conditions, times clobbers, --x); checked: every compiler-chosen register is general-use, unmentioned, not shared by locals with overlapping lexical scope, and emitted register operands are mentioned or bound; non-trivial = >= 2 locals/temporaries bound and >= 1 scratch register of the same type mentioned in the source"
    }
    fn tape_len(&self, tier: Tier) -> usize { tier.pick(400, 700) }
    fn cases(&self, tier: Tier) -> u32 { tier.pick(200000, 4000000) }
    fn required_labels(&self, _tier: Tier) -> Vec<&'static str> { vec!["bound>=2", "scratch_mentioned", "anti_scratch_present", "anti_scratch_rejected", "too_complex_rejected", "named_overlap", "eosd-params", "eosd-params:unnamed", "eosd-params:exhausted"] }

    fn generate(&self, tape: &mut Tape, _tier: Tier, known: &Known) -> Value {
        if tape.chance(1, 8) {
            // EoSD ECL subs with parameters: the parameter registers (I0 = REG[-10001], F0 = REG[-10005]) are general-purpose
            // registers of that language, so they must be kept out of the scratch pool while the sub has such a parameter,
            // whether or not the parameter has a name
            let params: Vec<(char, bool)> = { let mut v = vec![]; if tape.bool() { v.push(('i', tape.bool())); } if tape.bool() { v.push(('f', tape.bool())); } if tape.bool() { v.reverse(); } v };
            let ptext: Vec<String> = params.iter().map(|(c, named)| format!("{}{}", if *c == 'i' { "int" } else { "float" }, if *named { if *c == 'i' { " pa" } else { " pf" } } else { "" })).collect();
            let (ni, nf) = (tape.below(4), tape.below(4));
            let mut body = String::new();
            for k in 0..ni { body.push_str(&format!("    int x{} = {};\n", k, 100 + k)); }
            for k in 0..nf { body.push_str(&format!("    float y{} = {}.5;\n", k, k)); }
            // expressions that need temporaries
            if ni > 0 && tape.bool() { body.push_str(&format!("    x0 = (x0 * 3 + 2) * (x{} + 7);\n", ni - 1)); }
            if nf > 0 && tape.bool() { body.push_str(&format!("    y0 = (y0 * 3.0 + 2.0) * (y{} + 7.0);\n", nf - 1)); }
            for r in 1..4 { if tape.chance(1, 6) { body.push_str(&format!("    $REG[{}] = 1;\n", -10001 - r)); } }
            let text = format!("script timeline0 {{\n}}\n\nvoid Sub0({}) {{\n{}}}\n", ptext.join(", "), body);
            return json!({"mode": "eosd-params", "text": text, "int_param": params.iter().any(|p| p.0 == 'i'), "float_param": params.iter().any(|p| p.0 == 'f'), "unnamed": params.iter().any(|p| !p.1)});
        }
        let with_anti = tape.chance(1, 6);
        let knobs = LangKnobs { pad_intrinsics: 2, rich: true, anti_scratch: true };
        let spec = gen_lang(tape, &knobs);
        let mut cfg = BodyCfg::full();
        cfg.const_ternary_cond = !known.has("reg-mention-eliminated");
        cfg.more_locals = true;
        let mut body = { let mut g = BodyGen::new(tape, &spec, cfg); g.body() };
        if with_anti {
            let pos = tape.below(body.len());
            body.insert(pos, Stmt::Call { opcode: OP_ANTI, name: Some("antiscratch".into()), args: vec![], pseudos: vec![] }.into());
        }
        let text = format!("{{\n{}}}\n", print_body(&body));
        json!({"spec": spec.to_json(), "text": text,
               "mentioned": mentioned_regs(&body).into_iter().collect::<Vec<i32>>(),
               "mentioned_live": mentioned_regs_live(&body).into_iter().collect::<Vec<i32>>(),
               "anti": with_anti, "all_atoms": all_atoms(&body)})
    }

    fn check(&self, case: &Value, ctx: &mut CheckCtx) -> Outcome {
        if case["mode"] == "eosd-params" { return check_eosd_params(case, ctx); }
        let spec = LangSpec::from_json(&case["spec"]);
        let text = case["text"].as_str().unwrap();
        let getv = |k: &str| -> Vec<i32> { case[k].as_array().map(|a| a.iter().map(|x| x.as_i64().unwrap() as i32).collect()).unwrap_or_default() };
        let mentioned = getv("mentioned");
        let mentioned_live = if case.get("mentioned_live").is_some() { getv("mentioned_live") } else { mentioned.clone() };
        let anti = case["anti"] == true;
        if anti { ctx.label("anti_scratch_present"); }
        let hooks = spec.hooks();
        tx::with_truth(|truth| {
            let compiled = match tx::compile_body(truth, &spec, &hooks, text, tx::PipeOpts::default()) {
                Ok(c) => c,
                Err(stage) => {
                    let d = tx::diags(truth);
                    if !tx::has_error_diag(&d) { return Outcome::Fail(Failure::new("c05:err-without-diagnostic", format!("compile failed at {:?} without an error diagnostic", stage))); }
                    if d.contains("scratch registers are disabled") { ctx.label("anti_scratch_rejected"); if !anti { return Outcome::Fail(Failure::new("c05:anti-scratch-error-without-instruction", d)); } ctx.nontrivial(); return Outcome::Pass; }
                    if d.contains("script too complex") {
                        ctx.label("too_complex_rejected");
                        if case["all_atoms"] == true { return Outcome::Fail(Failure::new("c05:too-complex-without-locals", format!("a body without locals, temporaries or times counters was rejected:\n{}", d))); }
                        return Outcome::Pass;
                    }
                    return Outcome::Discard(format!("compile-error:{:?}", stage));
                }
            };
            let info = match &compiled.info { Some(i) => serde_json::to_value(i).unwrap(), None => return Outcome::Discard("no debug info".into()) };
            let locals: Vec<(String, String, i32, usize, usize)> = info["locals"].as_array().unwrap().iter().map(|l| (
                l["name"].as_str().unwrap().to_string(), l["type"].as_str().unwrap().to_string(), l["bound-to"]["reg"].as_i64().unwrap() as i32,
                l["name-span"][1].as_u64().unwrap_or(0) as usize, l["name-span"][2].as_u64().unwrap_or(0) as usize)).collect();
            let minstrs = tx::to_minstrs(&compiled.instrs);
            if locals.len() >= 2 { ctx.label("bound>=2"); }
            let scratch_mentioned = spec.regs.iter().any(|r| r.scratch && mentioned.contains(&r.id));
            if scratch_mentioned { ctx.label("scratch_mentioned"); }
            if locals.len() >= 2 && scratch_mentioned { ctx.nontrivial(); }
            let show = || format!("locals: {:?}\n{}", locals, super::c02::dump(&minstrs));

            // anti-scratch: if the instruction is present, nothing may have been bound
            if anti && !locals.is_empty() {
                return Outcome::Fail(Failure::new("c05:anti-scratch-ignored", format!("the body contains the anti-scratch instruction but registers were allocated\n{}", show())));
            }
            // (1) general-use, right type
            for (name, ty, reg, _, _) in &locals {
                let want = if ty == "int" { Ty::Int } else { Ty::Float };
                if !spec.scratch(want).contains(reg) { return Outcome::Fail(Failure::new("c05:bound-reg-not-general-use", format!("local {} ({}) bound to REG[{}] which is not a general-use {} register\n{}", name, ty, reg, ty, show()))); }
            }
            // (2) unmentioned
            for (name, _, reg, _, _) in &locals {
                if mentioned.contains(reg) {
                    let sig = if !mentioned_live.contains(reg) { "c05:bound-reg-mentioned:only-in-eliminated-code" } else { "c05:bound-reg-mentioned" };
                    return Outcome::Fail(Failure::new(sig, format!("local {} bound to REG[{}] which the source mentions\n{}", name, reg, show())));
                }
            }
            // (4) overlapping lexical scopes (named x named, temp x named, counter x named)
            let ranges = block_ranges(text);
            let scope_of = |name: &str, start: usize, end: usize| -> (usize, usize) {
                if name.starts_with("temp") { (start, end) }
                else if name.starts_with("count") {
                    // anonymous times counter: lives for the whole `times` block that follows its count expression
                    match ranges.iter().copied().filter(|(o, _)| *o >= end).min_by_key(|(o, _)| *o) { Some((_, c)) => (start, c), None => (start, end) }
                } else {
                    match innermost(&ranges, start) { Some((_, c)) => (start, c), None => (start, text.len()) }
                }
            };
            for (i, a) in locals.iter().enumerate() {
                let sa = scope_of(&a.0, a.3, a.4);
                for b in locals.iter().skip(i + 1) {
                    if a.0.starts_with("temp") && b.0.starts_with("temp") { continue; }
                    let sb = scope_of(&b.0, b.3, b.4);
                    let overlap = sa.0 <= sb.1 && sb.0 <= sa.1;
                    if overlap { ctx.label("named_overlap"); }
                    if overlap && a.2 == b.2 {
                        return Outcome::Fail(Failure::new("c05:overlapping-locals-share-reg", format!("{} (scope {:?}) and {} (scope {:?}) are both bound to REG[{}]\n{}", a.0, sa, b.0, sb, a.2, show())));
                    }
                }
            }
            // (5) emitted register operands are mentioned or bound
            match emitted_regs(&spec, &minstrs) {
                Err(e) => return Outcome::Fail(Failure::new("c05:undecodable-output", e)),
                Ok(regs) => {
                    let bound: BTreeSet<i32> = locals.iter().map(|l| l.2).collect();
                    for r in regs { if !mentioned.contains(&r) && !bound.contains(&r) {
                        return Outcome::Fail(Failure::new("c05:unknown-reg-in-output", format!("emitted code uses REG[{}] which is neither mentioned in the source nor bound to a local\n{}", r, show())));
                    } }
                }
            }
            let _: BTreeMap<i32, i32> = BTreeMap::new();
            Outcome::Pass
        })
    }
}


/// EoSD ECL: no local and no temporary may live in a parameter register of the enclosing sub.
fn check_eosd_params(case: &Value, ctx: &mut CheckCtx) -> Outcome {
    use crate::files::{self, Fmt};
    let text = case["text"].as_str().unwrap();
    let g = truth::Game::Th06;
    ctx.label("eosd-params");
    if case["unnamed"] == true { ctx.label("eosd-params:unnamed"); }
    let r = tx::with_truth(|truth| files::compile_file(truth, Fmt::Ecl, g, text.as_bytes(), &[], vec![]).map(|c| (c.bytes, c.debug_info)).map_err(|s| (s, tx::diags(truth))));
    let (bytes, dbg) = match r {
        Ok(x) => x,
        Err((s, d)) => {
            if !tx::has_error_diag(&d) { return Outcome::Fail(Failure::new("c05:eosd-params:err-without-diagnostic", format!("{:?}\n{}", s, text))); }
            // too few registers left: a rejection is what the property asks for
            ctx.label("eosd-params:exhausted");
            return Outcome::Pass;
        }
    };
    let mut forbidden: Vec<i32> = vec![];
    if case["int_param"] == true { forbidden.push(-10001); }
    if case["float_param"] == true { forbidden.push(-10005); }
    if !forbidden.is_empty() { ctx.nontrivial(); }
    let script = dbg["exported-scripts"].as_array().and_then(|a| a.iter().find(|s| s["exported-as"]["type"] == "olde-ecl-sub")).cloned().unwrap_or(Value::Null);
    for l in script["locals"].as_array().cloned().unwrap_or_default() {
        let name = l["name"].as_str().unwrap_or("");
        if name == "pa" || name == "pf" { continue; }
        let reg = l["bound-to"]["reg"].as_i64().unwrap_or(0) as i32;
        if forbidden.contains(&reg) { return Outcome::Fail(Failure::new("c05:eosd-params:local-in-parameter-register", format!("local {} is bound to REG[{}], the register of a parameter of the enclosing sub\n{}", name, reg, text))); }
    }
    // the parameters are never used in the body, so their registers must not occur in the emitted instructions at all
    let file = match tx::with_truth(|truth| files::read_file(truth, Fmt::Ecl, g, &bytes, false).map_err(|_| ())) { Ok(f) => f, Err(()) => return Outcome::Discard("written file unreadable".into()) };
    for instrs in crate::props::c03::scripts_of(&file) {
        for i in &instrs {
            for w in i.args_blob.chunks(4) {
                if w.len() < 4 { continue; }
                let v = i32::from_le_bytes([w[0], w[1], w[2], w[3]]);
                let f = f32::from_le_bytes([w[0], w[1], w[2], w[3]]);
                for reg in &forbidden {
                    if v == *reg || f == *reg as f32 { return Outcome::Fail(Failure::new("c05:eosd-params:parameter-register-used-as-scratch", format!("the emitted instruction (opcode {}, args {:02x?}) uses REG[{}], the register of a parameter that the body never mentions\n{}", i.opcode, i.args_blob, reg, text))); }
                }
            }
        }
    }
    Outcome::Pass
}
