//! C05 — scratch registers never collide with registers the script uses.
//! Oracle: invariants over the compile result (debug-info bindings + emitted register operands),
//! with the generator's own knowledge of which registers the source mentions and of lexical scopes.
use std::collections::{BTreeMap, BTreeSet};
use serde_json::{json, Value};
use crate::engine::*;
use crate::gen::{body::*, lang::*, prog::*};
use crate::tx;

pub struct C05;

/// (open, close) byte offsets of every `{ .. }` block in text printed by G-prog (difficulty labels `{"..."}` excluded).
pub fn block_ranges(text: &str) -> Vec<(usize, usize)> {
    let b = text.as_bytes();
    let mut stack = vec![];
    let mut out = vec![];
    let mut i = 0;
    let mut in_str = false;
    let mut label_depth = 0usize;
    while i < b.len() {
        let c = b[i];
        if in_str { if c == b'\\' { i += 1; } else if c == b'"' { in_str = false; } i += 1; continue; }
        match c {
            b'"' => in_str = true,
            b'{' => { if i + 1 < b.len() && b[i + 1] == b'"' { label_depth += 1; } else { stack.push(i); } }
            b'}' => { if label_depth > 0 { label_depth -= 1; } else if let Some(o) = stack.pop() { out.push((o, i)); } }
            _ => {}
        }
        i += 1;
    }
    out
}

fn innermost(ranges: &[(usize, usize)], p: usize) -> Option<(usize, usize)> {
    ranges.iter().copied().filter(|(o, c)| *o < p && p < *c).min_by_key(|(o, c)| c - o)
}

/// register operands of emitted instructions (ids of arguments flagged in the parameter mask)
pub fn emitted_regs(spec: &LangSpec, instrs: &[crate::model::machine::MInstr]) -> Result<BTreeSet<i32>, String> {
    let mut out = BTreeSet::new();
    for ins in instrs {
        let Some(sig) = spec.sigs.get(&ins.opcode) else { return Err(format!("no signature for opcode {}", ins.opcode)); };
        let mut pos = 0; let mut bit = 0;
        for ch in sig.chars() {
            match ch {
                '_' => pos += 4,
                _ => {
                    if pos + 4 > ins.blob.len() { return Err("blob too short".into()); }
                    let bits = u32::from_le_bytes([ins.blob[pos], ins.blob[pos + 1], ins.blob[pos + 2], ins.blob[pos + 3]]);
                    if (ins.mask >> bit) & 1 == 1 { out.insert(if ch == 'f' { f32::from_bits(bits) as i32 } else { bits as i32 }); }
                    pos += 4; bit += 1;
                }
            }
        }
    }
    Ok(out)
}

fn all_atoms(body: &[SNode]) -> bool {
    let mut ok = true;
    visit_stmts(body, 0, &mut |s, _| {
        if matches!(s.kind, Stmt::Decl { .. } | Stmt::Times { clobber: None, .. }) { ok = false; }
        for e in stmt_exprs(&s.kind) {
            // conditions may be a single comparison of atoms
            let simple = match e { Expr::Bin(op, a, b) if is_compare(op) => a.is_atom() && b.is_atom(), Expr::PreDec(_) => true, e => e.is_atom() };
            if !simple { ok = false; }
            if let Stmt::Call { .. } | Stmt::Assign { .. } = s.kind { if !e.is_atom() { ok = false; } }
        }
    });
    ok
}

impl Property for C05 {
    fn id(&self) -> &'static str { "C05" }
    fn rule(&self) -> &'static str {
        "(a) generated register-language configuration (scratch pools of 0..4 registers per type, optional anti-scratch instruction) + typed body mentioning registers in every position (assignment targets/sources, aliases and raw spellings, both sigils, difficulty switches, call arguments, conditions, times clobbers, --x); checked: every compiler-chosen register is general-use, unmentioned, not shared by locals with overlapping lexical scope, and emitted register operands are mentioned or bound; (b) EoSD ECL subs with named / unnamed parameters: no local or temporary in a parameter register; (c) the real register files of ANM TH07/08/12/14/17 and ECL TH06/07/08/StB through whole-file compiles: named locals in nested scopes, expressions needing temporaries, general-purpose registers mentioned as assignment targets / sources / conditions / inside difficulty switches, sometimes more live locals than registers or the instruction that forbids scratch use: every bound register is a general-purpose register of its type, unmentioned, not shared by locals whose scopes overlap, and exhaustion / anti-scratch must be diagnosed; non-trivial = >= 2 locals/temporaries bound and >= 1 scratch register of the same type mentioned in the source"
    }
    fn tape_len(&self, tier: Tier) -> usize { tier.pick(400, 700) }
    fn cases(&self, tier: Tier) -> u32 { tier.pick(200000, 4000000) }
    fn required_labels(&self, _tier: Tier) -> Vec<&'static str> { vec!["bound>=2", "scratch_mentioned", "anti_scratch_present", "anti_scratch_rejected", "too_complex_rejected", "named_overlap", "eosd-params", "eosd-params:unnamed", "eosd-params:exhausted", "real-regs", "real-regs:anm", "real-regs:ecl", "real-regs:bound>=2", "real-regs:mentioned", "real-regs:nested-scopes", "real-regs:exhausted", "real-regs:anti-scratch"] }

    fn generate(&self, tape: &mut Tape, _tier: Tier, known: &Known) -> Value {
        if tape.chance(1, 6) { return real_regs_case(tape); }
        if tape.chance(1, 8) {
            // EoSD ECL subs with parameters: the parameter registers (I0 = REG[-10001], F0 = REG[-10005]) are general-purpose
            // registers of that language, so they must be kept out of the scratch pool while the sub has such a parameter,
            // whether or not the parameter has a name
            let params: Vec<(char, bool)> = { let mut v = vec![]; if tape.bool() { v.push(('i', tape.bool())); } if tape.bool() { v.push(('f', tape.bool())); } if tape.bool() { v.reverse(); } v };
            let ptext: Vec<String> = params.iter().map(|(c, named)| format!("{}{}", if *c == 'i' { "int" } else { "float" }, if *named { if *c == 'i' { " pa" } else { " pf" } } else { "" })).collect();
            let (ni, nf) = (tape.below(4), tape.below(4));
            let mut body = String::new();
            for k in 0..ni { body.push_str(&format!("    int x{} = {};\n", k, 100 + k)); }
            for k in 0..nf { body.push_str(&format!("    float y{} = {}.5;\n", k, k)); }
            // expressions that need temporaries
            if ni > 0 && tape.bool() { body.push_str(&format!("    x0 = (x0 * 3 + 2) * (x{} + 7);\n", ni - 1)); }
            if nf > 0 && tape.bool() { body.push_str(&format!("    y0 = (y0 * 3.0 + 2.0) * (y{} + 7.0);\n", nf - 1)); }
            for r in 1..4 { if tape.chance(1, 6) { body.push_str(&format!("    $REG[{}] = 1;\n", -10001 - r)); } }
            let text = format!("script timeline0 {{\n}}\n\nvoid Sub0({}) {{\n{}}}\n", ptext.join(", "), body);
            return json!({"mode": "eosd-params", "text": text, "int_param": params.iter().any(|p| p.0 == 'i'), "float_param": params.iter().any(|p| p.0 == 'f'), "unnamed": params.iter().any(|p| !p.1)});
        }
        let with_anti = tape.chance(1, 6);
        let knobs = LangKnobs { pad_intrinsics: 2, rich: true, anti_scratch: true };
        let spec = gen_lang(tape, &knobs);
        let mut cfg = BodyCfg::full();
        cfg.const_ternary_cond = !known.has("reg-mention-eliminated");
        cfg.more_locals = true;
        let mut body = { let mut g = BodyGen::new(tape, &spec, cfg); g.body() };
        if with_anti {
            let pos = tape.below(body.len());
            body.insert(pos, Stmt::Call { opcode: OP_ANTI, name: Some("antiscratch".into()), args: vec![], pseudos: vec![] }.into());
        }
        let text = format!("{{\n{}}}\n", print_body(&body));
        json!({"spec": spec.to_json(), "text": text,
               "mentioned": mentioned_regs(&body).into_iter().collect::<Vec<i32>>(),
               "mentioned_live": mentioned_regs_live(&body).into_iter().collect::<Vec<i32>>(),
               "anti": with_anti, "all_atoms": all_atoms(&body)})
    }

    fn check(&self, case: &Value, ctx: &mut CheckCtx) -> Outcome {
        if case["mode"] == "eosd-params" { return check_eosd_params(case, ctx); }
        if case["mode"] == "real-regs" { return check_real_regs(case, ctx); }
        let spec = LangSpec::from_json(&case["spec"]);
        let text = case["text"].as_str().unwrap();
        let getv = |k: &str| -> Vec<i32> { case[k].as_array().map(|a| a.iter().map(|x| x.as_i64().unwrap() as i32).collect()).unwrap_or_default() };
        let mentioned = getv("mentioned");
        let mentioned_live = if case.get("mentioned_live").is_some() { getv("mentioned_live") } else { mentioned.clone() };
        let anti = case["anti"] == true;
        if anti { ctx.label("anti_scratch_present"); }
        let hooks = spec.hooks();
        tx::with_truth(|truth| {
            let compiled = match tx::compile_body(truth, &spec, &hooks, text, tx::PipeOpts::default()) {
                Ok(c) => c,
                Err(stage) => {
                    let d = tx::diags(truth);
                    if !tx::has_error_diag(&d) { return Outcome::Fail(Failure::new("c05:err-without-diagnostic", format!("compile failed at {:?} without an error diagnostic", stage))); }
                    if d.contains("scratch registers are disabled") { ctx.label("anti_scratch_rejected"); if !anti { return Outcome::Fail(Failure::new("c05:anti-scratch-error-without-instruction", d)); } ctx.nontrivial(); return Outcome::Pass; }
                    if d.contains("script too complex") {
                        ctx.label("too_complex_rejected");
                        if case["all_atoms"] == true { return Outcome::Fail(Failure::new("c05:too-complex-without-locals", format!("a body without locals, temporaries or times counters was rejected:\n{}", d))); }
                        return Outcome::Pass;
                    }
                    return Outcome::Discard(format!("compile-error:{:?}", stage));
                }
            };
            let info = match &compiled.info { Some(i) => serde_json::to_value(i).unwrap(), None => return Outcome::Discard("no debug info".into()) };
            let locals: Vec<(String, String, i32, usize, usize)> = info["locals"].as_array().unwrap().iter().map(|l| (
                l["name"].as_str().unwrap().to_string(), l["type"].as_str().unwrap().to_string(), l["bound-to"]["reg"].as_i64().unwrap() as i32,
                l["name-span"][1].as_u64().unwrap_or(0) as usize, l["name-span"][2].as_u64().unwrap_or(0) as usize)).collect();
            let minstrs = tx::to_minstrs(&compiled.instrs);
            if locals.len() >= 2 { ctx.label("bound>=2"); }
            let scratch_mentioned = spec.regs.iter().any(|r| r.scratch && mentioned.contains(&r.id));
            if scratch_mentioned { ctx.label("scratch_mentioned"); }
            if locals.len() >= 2 && scratch_mentioned { ctx.nontrivial(); }
            let show = || format!("locals: {:?}\n{}", locals, super::c02::dump(&minstrs));

            // anti-scratch: if the instruction is present, nothing may have been bound
            if anti && !locals.is_empty() {
                return Outcome::Fail(Failure::new("c05:anti-scratch-ignored", format!("the body contains the anti-scratch instruction but registers were allocated\n{}", show())));
            }
            // (1) general-use, right type
            for (name, ty, reg, _, _) in &locals {
                let want = if ty == "int" { Ty::Int } else { Ty::Float };
                if !spec.scratch(want).contains(reg) { return Outcome::Fail(Failure::new("c05:bound-reg-not-general-use", format!("local {} ({}) bound to REG[{}] which is not a general-use {} register\n{}", name, ty, reg, ty, show()))); }
            }
            // (2) unmentioned
            for (name, _, reg, _, _) in &locals {
                if mentioned.contains(reg) {
                    let sig = if !mentioned_live.contains(reg) { "c05:bound-reg-mentioned:only-in-eliminated-code" } else { "c05:bound-reg-mentioned" };
                    return Outcome::Fail(Failure::new(sig, format!("local {} bound to REG[{}] which the source mentions\n{}", name, reg, show())));
                }
            }
            // (4) overlapping lexical scopes (named x named, temp x named, counter x named)
            let ranges = block_ranges(text);
            let scope_of = |name: &str, start: usize, end: usize| -> (usize, usize) {
                if name.starts_with("temp") { (start, end) }
                else if name.starts_with("count") {
                    // anonymous times counter: lives for the whole `times` block that follows its count expression
                    match ranges.iter().copied().filter(|(o, _)| *o >= end).min_by_key(|(o, _)| *o) { Some((_, c)) => (start, c), None => (start, end) }
                } else {
                    match innermost(&ranges, start) { Some((_, c)) => (start, c), None => (start, text.len()) }
                }
            };
            for (i, a) in locals.iter().enumerate() {
                let sa = scope_of(&a.0, a.3, a.4);
                for b in locals.iter().skip(i + 1) {
                    if a.0.starts_with("temp") && b.0.starts_with("temp") { continue; }
                    let sb = scope_of(&b.0, b.3, b.4);
                    let overlap = sa.0 <= sb.1 && sb.0 <= sa.1;
                    if overlap { ctx.label("named_overlap"); }
                    if overlap && a.2 == b.2 {
                        return Outcome::Fail(Failure::new("c05:overlapping-locals-share-reg", format!("{} (scope {:?}) and {} (scope {:?}) are both bound to REG[{}]\n{}", a.0, sa, b.0, sb, a.2, show())));
                    }
                }
            }
            // (5) emitted register operands are mentioned or bound
            match emitted_regs(&spec, &minstrs) {
                Err(e) => return Outcome::Fail(Failure::new("c05:undecodable-output", e)),
                Ok(regs) => {
                    let bound: BTreeSet<i32> = locals.iter().map(|l| l.2).collect();
                    for r in regs { if !mentioned.contains(&r) && !bound.contains(&r) {
                        return Outcome::Fail(Failure::new("c05:unknown-reg-in-output", format!("emitted code uses REG[{}] which is neither mentioned in the source nor bound to a local\n{}", r, show())));
                    } }
                }
            }
            let _: BTreeMap<i32, i32> = BTreeMap::new();
            Outcome::Pass
        })
    }
}


/// EoSD ECL: no local and no temporary may live in a parameter register of the enclosing sub.
fn check_eosd_params(case: &Value, ctx: &mut CheckCtx) -> Outcome {
    use crate::files::{self, Fmt};
    let text = case["text"].as_str().unwrap();
    let g = truth::Game::Th06;
    ctx.label("eosd-params");
    if case["unnamed"] == true { ctx.label("eosd-params:unnamed"); }
    let r = tx::with_truth(|truth| files::compile_file(truth, Fmt::Ecl, g, text.as_bytes(), &[], vec![]).map(|c| (c.bytes, c.debug_info)).map_err(|s| (s, tx::diags(truth))));
    let (bytes, dbg) = match r {
        Ok(x) => x,
        Err((s, d)) => {
            if !tx::has_error_diag(&d) { return Outcome::Fail(Failure::new("c05:eosd-params:err-without-diagnostic", format!("{:?}\n{}", s, text))); }
            // too few registers left: a rejection is what the property asks for
            ctx.label("eosd-params:exhausted");
            return Outcome::Pass;
        }
    };
    let mut forbidden: Vec<i32> = vec![];
    if case["int_param"] == true { forbidden.push(-10001); }
    if case["float_param"] == true { forbidden.push(-10005); }
    if !forbidden.is_empty() { ctx.nontrivial(); }
    let script = dbg["exported-scripts"].as_array().and_then(|a| a.iter().find(|s| s["exported-as"]["type"] == "olde-ecl-sub")).cloned().unwrap_or(Value::Null);
    for l in script["locals"].as_array().cloned().unwrap_or_default() {
        let name = l["name"].as_str().unwrap_or("");
        if name == "pa" || name == "pf" { continue; }
        let reg = l["bound-to"]["reg"].as_i64().unwrap_or(0) as i32;
        if forbidden.contains(&reg) { return Outcome::Fail(Failure::new("c05:eosd-params:local-in-parameter-register", format!("local {} is bound to REG[{}], the register of a parameter of the enclosing sub\n{}", name, reg, text))); }
    }
    // the parameters are never used in the body, so their registers must not occur in the emitted instructions at all
    let file = match tx::with_truth(|truth| files::read_file(truth, Fmt::Ecl, g, &bytes, false).map_err(|_| ())) { Ok(f) => f, Err(()) => return Outcome::Discard("written file unreadable".into()) };
    for instrs in crate::props::c03::scripts_of(&file) {
        for i in &instrs {
            for w in i.args_blob.chunks(4) {
                if w.len() < 4 { continue; }
                let v = i32::from_le_bytes([w[0], w[1], w[2], w[3]]);
                let f = f32::from_le_bytes([w[0], w[1], w[2], w[3]]);
                for reg in &forbidden {
                    if v == *reg || f == *reg as f32 { return Outcome::Fail(Failure::new("c05:eosd-params:parameter-register-used-as-scratch", format!("the emitted instruction (opcode {}, args {:02x?}) uses REG[{}], the register of a parameter that the body never mentions\n{}", i.opcode, i.args_blob, reg, text))); }
                }
            }
        }
    }
    Outcome::Pass
}


// ---- the real register files (ANM TH07+, ECL TH06 / TH07 / TH08 / StB) --------------------------------------------

/// The general-purpose registers of each real language, as listed in the games' mapfiles (I0-I3, IC0-IC3, F0-F3 ...).
fn real_general(fmt: &str, game: &str) -> (Vec<i32>, Vec<i32>) {
    match (fmt, game) {
        ("anm", _) => (vec![10000, 10001, 10002, 10003, 10008, 10009], vec![10004, 10005, 10006, 10007]),
        ("ecl", "th06") => (vec![-10001, -10002, -10003, -10004, -10009, -10010, -10011, -10012], vec![-10005, -10006, -10007, -10008]),
        ("ecl", "th07") => (vec![10000, 10001, 10002, 10003, 10012, 10013, 10014, 10015], vec![10004, 10005, 10006, 10007, 10008, 10009, 10010, 10011, 10072, 10074]),
        ("ecl", "th08") => (vec![10000, 10001, 10002, 10003, 10004, 10005, 10006, 10007, 10036, 10037, 10038, 10039], vec![10016, 10017, 10018, 10019, 10020, 10021, 10022, 10023, 10094, 10095]),
        _ /* ecl th095 */ => (vec![10000, 10001, 10002, 10003, 10004, 10005, 10006, 10007, 10020, 10021, 10022, 10023], vec![10008, 10009, 10010, 10011, 10012, 10013, 10014, 10015, 10077, 10078, 10079, 10080]),
    }
}

/// A script / sub over a real register file: named locals in nested scopes (each declared at the start of its block, so
/// lexical overlap = one scope path is a prefix of the other), expressions that need temporaries, registers of the
/// general-purpose set mentioned in several syntactic positions, sometimes more locals than registers, sometimes the
/// instruction that forbids scratch use.
fn real_regs_case(tape: &mut Tape) -> Value {
    let (fmt, game) = *tape.pick(&[("anm", "th07"), ("anm", "th08"), ("anm", "th12"), ("anm", "th14"), ("anm", "th17"), ("ecl", "th06"), ("ecl", "th07"), ("ecl", "th08"), ("ecl", "th095")]);
    let (gi, gf) = real_general(fmt, game);
    let mut locals: Vec<Value> = vec![];   // {name, ty, path}
    let mut mentioned: Vec<i32> = vec![];
    let mut k = 0usize;
    let many = tape.chance(1, 8);
    fn block(tape: &mut Tape, depth: usize, path: &mut Vec<usize>, ind: usize, k: &mut usize, locals: &mut Vec<Value>, mentioned: &mut Vec<i32>, gi: &[i32], gf: &[i32], fmt: &str, many: bool) -> String {
        let pad = "    ".repeat(ind);
        let mut s = String::new();
        let (ni, nf) = if many { (tape.below(gi.len() + 3), tape.below(gf.len() + 3)) } else { (tape.below(3), tape.below(3)) };
        let mut mine_i = vec![]; let mut mine_f = vec![];
        for _ in 0..ni { *k += 1; let n = format!("x{}", k); s.push_str(&format!("{}int {} = {};\n", pad, n, 1000 + *k)); locals.push(json!({"name": n, "ty": "int", "path": path.clone()})); mine_i.push(n); }
        for _ in 0..nf { *k += 1; let n = format!("y{}", k); s.push_str(&format!("{}float {} = {}.5;\n", pad, n, 1000 + *k)); locals.push(json!({"name": n, "ty": "float", "path": path.clone()})); mine_f.push(n); }
        let nst = tape.below(4);
        for _ in 0..nst {
            match tape.below(8) {
                0 if !mine_i.is_empty() => { let a = tape.pick(&mine_i).clone(); let b = tape.pick(&mine_i).clone(); s.push_str(&format!("{}{} = ({} * 3 + 2) * ({} + 7);\n", pad, a, a, b)); }
                1 if !mine_f.is_empty() => { let a = tape.pick(&mine_f).clone(); let b = tape.pick(&mine_f).clone(); s.push_str(&format!("{}{} = ({} * 3.0 + 2.0) * ({} + 7.0);\n", pad, a, a, b)); }
                2 => { let r = *tape.pick(gi); mentioned.push(r); s.push_str(&format!("{}$REG[{}] = {};\n", pad, r, tape.below(9))); }
                3 => { let r = *tape.pick(gf); mentioned.push(r); s.push_str(&format!("{}%REG[{}] = {}.0;\n", pad, r, tape.below(9))); }
                4 if !mine_i.is_empty() => { let r = *tape.pick(gi); mentioned.push(r); let a = tape.pick(&mine_i).clone(); s.push_str(&format!("{}{} = $REG[{}] + ({} * 2);\n", pad, a, r, a)); }
                5 if !mine_i.is_empty() => { let r = *tape.pick(gi); mentioned.push(r); let a = tape.pick(&mine_i).clone(); s.push_str(&format!("{}if ($REG[{}] == 3) {{\n{}    {} = {} + 1;\n{}}}\n", pad, r, pad, a, a, pad)); }
                6 if fmt == "ecl" && !mine_i.is_empty() => { let r = *tape.pick(gi); mentioned.push(r); let a = tape.pick(&mine_i).clone(); s.push_str(&format!("{}{} = {} + ($REG[{}] : 5 : 6 : 7);\n", pad, a, a, r)); }
                7 if !mine_f.is_empty() => { let r = *tape.pick(gf); mentioned.push(r); let a = tape.pick(&mine_f).clone(); s.push_str(&format!("{}{} = {} * (%REG[{}] - 1.0);\n", pad, a, a, r)); }
                _ => {}
            }
        }
        if depth > 0 {
            let nb = tape.below(3);
            for bi in 0..nb {
                path.push(bi);
                let inner = block(tape, depth - 1, path, ind + 1, k, locals, mentioned, gi, gf, fmt, false);
                path.pop();
                match tape.below(3) { 0 => s.push_str(&format!("{}{{\n{}{}}}\n", pad, inner, pad)), 1 => s.push_str(&format!("{}loop {{\n{}{}    break;\n{}}}\n", pad, inner, pad, pad)), _ => s.push_str(&format!("{}if (1 == 1) {{\n{}{}}}\n", pad, inner, pad)) }
            }
        }
        s
    }
    let mut path = vec![];
    let mut body = block(tape, 2, &mut path, 1, &mut k, &mut locals, &mut mentioned, &gi, &gf, fmt, many);
    // the instruction that forbids scratch registers (ANM TH14+: copyParentVars in this script; ECL: the call-stack instruction, file-wide)
    let anti = tape.chance(1, 10);
    let mut anti_text = String::new();
    if anti {
        anti_text = match (fmt, game) { ("anm", "th14") | ("anm", "th17") => "    ins_509();\n".into(), ("ecl", "th06") | ("ecl", "th07") => "    ins_130(@blob=\"\");\n".into(), ("ecl", "th08") => "    ins_151(@blob=\"\");\n".into(), ("ecl", "th095") => "    ins_126(@blob=\"\");\n".into(), _ => String::new() };
        body.push_str(&anti_text);
    }
    let text = if fmt == "anm" {
        format!("entry {{\n    path: \"a.png\",\n    has_data: false,\n    rt_width: 16,\n    rt_height: 16,\n    rt_format: 1,\n    sprites: {{}},\n}}\n\nscript script0 {{\n{}}}\n", body)
    } else {
        format!("script timeline0 {{\n}}\n\nvoid Sub0() {{\n{}}}\n", body)
    };
    mentioned.sort(); mentioned.dedup();
    json!({"mode": "real-regs", "fmt": fmt, "game": game, "text": text, "locals": locals, "mentioned": mentioned, "anti": !anti_text.is_empty()})
}

fn check_real_regs(case: &Value, ctx: &mut CheckCtx) -> Outcome {
    use crate::files::{self, Fmt};
    let text = case["text"].as_str().unwrap();
    let (fmt_s, game) = (case["fmt"].as_str().unwrap(), case["game"].as_str().unwrap());
    let fmt = Fmt::parse(fmt_s);
    let g = files::game_from_str(game);
    let (gi, gf) = real_general(fmt_s, game);
    ctx.label("real-regs"); ctx.label(format!("real-regs:{}", fmt_s));
    let locals = case["locals"].as_array().cloned().unwrap_or_default();
    let mentioned: BTreeSet<i32> = case["mentioned"].as_array().map(|a| a.iter().map(|x| x.as_i64().unwrap() as i32).collect()).unwrap_or_default();
    if !mentioned.is_empty() { ctx.label("real-regs:mentioned"); }
    let path_of = |l: &Value| -> Vec<u64> { l["path"].as_array().map(|a| a.iter().map(|x| x.as_u64().unwrap()).collect()).unwrap_or_default() };
    let overlap = |a: &Value, b: &Value| { let (p, q) = (path_of(a), path_of(b)); p.starts_with(&q) || q.starts_with(&p) };
    if locals.iter().any(|l| !path_of(l).is_empty()) { ctx.label("real-regs:nested-scopes"); }
    // how many registers of each type the largest set of simultaneously live named locals needs (a chain of nested scopes)
    let need = |ty: &str| -> usize { locals.iter().filter(|l| l["ty"] == ty).map(|l| locals.iter().filter(|m| m["ty"] == ty && path_of(l).starts_with(&path_of(m))).count()).max().unwrap_or(0) };
    let avail_i = gi.iter().filter(|r| !mentioned.contains(r)).count();
    let avail_f = gf.iter().filter(|r| !mentioned.contains(r)).count();
    let must_reject = need("int") > avail_i || need("float") > avail_f || (case["anti"] == true && !locals.is_empty());
    let r = tx::with_truth(|truth| files::compile_file(truth, fmt, g, text.as_bytes(), &[], vec![]).map(|c| c.debug_info).map_err(|s| (s, tx::diags(truth))));
    let dbg = match r {
        Ok(d) => d,
        Err((s, d)) => {
            if !tx::has_error_diag(&d) { return Outcome::Fail(Failure::new("c05:real-regs:err-without-diagnostic", format!("{:?}\n{}", s, text))); }
            if must_reject { ctx.label(if case["anti"] == true && !locals.is_empty() { "real-regs:anti-scratch" } else { "real-regs:exhausted" }); ctx.nontrivial(); }
            else { ctx.label("real-regs:rejected-for-another-reason"); }
            return Outcome::Pass;
        }
    };
    if must_reject {
        return Outcome::Fail(Failure::new(format!("c05:real-regs:{}", if case["anti"] == true && !locals.is_empty() { "anti-scratch-ignored" } else { "more-live-locals-than-registers-accepted" }),
            format!("game {} {}: {} int / {} float locals are live at once, {} / {} general-purpose registers are left after the ones the source mentions{}, but compile succeeded\n{}", game, fmt_s, need("int"), need("float"), avail_i, avail_f, if case["anti"] == true { "; the script also contains the instruction that forbids scratch registers" } else { "" }, text)));
    }
    let mut bound: BTreeMap<String, i32> = BTreeMap::new();
    for script in dbg["exported-scripts"].as_array().cloned().unwrap_or_default() {
        for l in script["locals"].as_array().cloned().unwrap_or_default() {
            if let (Some(n), Some(r)) = (l["name"].as_str(), l["bound-to"]["reg"].as_i64()) { bound.insert(n.to_string(), r as i32); }
        }
    }
    if bound.len() >= 2 { ctx.label("real-regs:bound>=2"); ctx.nontrivial(); }
    for l in &locals {
        let name = l["name"].as_str().unwrap();
        let Some(&reg) = bound.get(name) else { continue };   // (a local that is never read may be optimised away)
        let pool = if l["ty"] == "int" { &gi } else { &gf };
        if !pool.contains(&reg) { return Outcome::Fail(Failure::new("c05:real-regs:not-general-purpose", format!("game {} {}: {} local {} is bound to REG[{}], which is not a general-purpose {} register of this language\n{}", game, fmt_s, l["ty"], name, reg, l["ty"], text))); }
        if mentioned.contains(&reg) { return Outcome::Fail(Failure::new("c05:real-regs:bound-reg-mentioned", format!("game {} {}: local {} is bound to REG[{}], which the source mentions\n{}", game, fmt_s, name, reg, text))); }
        for m in &locals {
            let mn = m["name"].as_str().unwrap();
            if mn != name && overlap(l, m) { if let Some(&r2) = bound.get(mn) { if r2 == reg { return Outcome::Fail(Failure::new("c05:real-regs:live-locals-share-a-register", format!("game {} {}: locals {} and {} are both bound to REG[{}] although their scopes overlap\n{}", game, fmt_s, name, mn, reg, text))); } } }
        }
    }
    Outcome::Pass
}
