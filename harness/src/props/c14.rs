//! C14 — difficulty labels and switches select exactly the stated difficulties.
use std::collections::BTreeMap;
use serde_json::{json, Value};
use truth::ast;
use crate::engine::*;
use crate::gen::{lang::*, prog::*};
use crate::model::machine::{MInstr, Machine, Stop};
use crate::tx;

pub struct C14;

const OP: u16 = 205; // default_lang: "SSSS"

/// M-diff: independent model of a flag-definition set.
#[derive(Clone, Debug)]
pub struct Flags { pub defs: Vec<(u32, char, bool)> }

impl Flags {
    pub fn from_json(v: &Value) -> Flags {
        Flags { defs: v.as_array().map(|a| a.iter().map(|e| (e[0].as_u64().unwrap() as u32, e[1].as_str().unwrap().chars().next().unwrap(), e[2].as_bool().unwrap())).collect()).unwrap_or_default() }
    }
    pub fn to_json(&self) -> Value { json!(self.defs.iter().map(|(i, c, e)| json!([i, c.to_string(), e])).collect::<Vec<_>>()) }
    pub fn default_on(&self) -> u8 { let mut m = 0u8; for (i, _, e) in &self.defs { if *e { m |= 1 << i; } else { m &= !(1 << i); } } m }
    pub fn name_to_bit(&self) -> BTreeMap<char, u32> {
        let mut m = BTreeMap::new();
        for (b, c) in "01234567".chars().enumerate() { m.insert(c, b as u32); }
        for (i, c, _) in &self.defs { m.insert(*c, *i); }
        m
    }
    /// the documented reading of a label string
    pub fn parse_label(&self, s: &str) -> Option<u8> {
        let names = self.name_to_bit();
        let mut out = self.default_on();
        let mut enable = true;
        for c in s.chars() {
            match c {
                '-' => enable = false,
                '+' => enable = true,
                '*' => out = if enable { 0xFF } else { 0 },
                c => { let b = *names.get(&c)?; if enable { out |= 1 << b; } else { out &= !(1 << b); } }
            }
        }
        Some(out)
    }
    pub fn mapfile_lines(&self) -> Vec<(u32, String)> { self.defs.iter().map(|(i, c, e)| (*i, format!("{}{}", c, if *e { '+' } else { '-' }))).collect() }
    pub fn ambiguous(&self) -> bool {
        // one name denoting two bits (a later definition re-uses a name, or a letter shadows a digit of another bit)
        let mut seen: BTreeMap<char, u32> = BTreeMap::new();
        for (b, c) in "01234567".chars().enumerate() { seen.insert(c, b as u32); }
        // last definition per bit wins for printing; names of overridden definitions stay parseable
        let mut printed: BTreeMap<u32, char> = "01234567".chars().enumerate().map(|(b, c)| (b as u32, c)).collect();
        for (i, c, _) in &self.defs { printed.insert(*i, *c); seen.insert(*c, *i); }
        printed.iter().any(|(bit, c)| seen.get(c) != Some(bit))
    }
}

fn gen_flags(tape: &mut Tape, allow_ambiguous: bool) -> Flags {
    let letters: Vec<char> = "ENHLXOABCDefgh".chars().collect();
    let mut defs = vec![];
    let mut used = vec![];
    let n = tape.below(7);
    for _ in 0..n {
        let bit = tape.below(8) as u32;
        let mut c = *tape.pick(&letters);
        if allow_ambiguous && tape.chance(1, 3) { c = *tape.pick(&"0123ENH".chars().collect::<Vec<_>>()); }
        else { let mut tries = 0; while used.contains(&c) && tries < 20 { c = letters[(letters.iter().position(|x| *x == c).unwrap() + 1) % letters.len()]; tries += 1; } }
        used.push(c);
        defs.push((bit, c, tape.chance(1, 3)));
    }
    Flags { defs }
}

fn spec_with_flags(flags: &Flags) -> LangSpec { let mut s = default_lang(); s.diff_flags = flags.mapfile_lines(); s }

fn instr(time: i32, mask: u8, args: [i32; 4]) -> MInstr {
    let mut blob = vec![]; for a in args { blob.extend(a.to_le_bytes()); }
    MInstr { time, opcode: OP, mask: 0, blob, difficulty: mask }
}

fn logs_per_difficulty(spec: &LangSpec, instrs: &[MInstr]) -> Result<Vec<Vec<(i32, u16, Vec<i32>)>>, String> {
    let mut out = vec![];
    for d in 0..8 {
        let mut m = Machine::new(Default::default());
        match m.run(spec, instrs, d, 4, 100000) { Stop::End => {}, s => return Err(format!("{:?}", s)) }
        out.push(m.log.iter().map(|c| (c.real_time, c.opcode, c.args.iter().map(|v| v.as_i()).collect())).collect());
    }
    Ok(out)
}

impl Property for C14 {
    fn id(&self) -> &'static str { "C14" }
    fn rule(&self) -> &'static str {
        "(a) labels: generated flag-definition sets (names, default-on bits) x ALL 256 masks: RawInstr{difficulty: m} -> decompile -> label text -> parse+compile -> difficulty byte == m, and the label text read by the harness's own label parser == m; (b) switches: statements with 1..3 difficulty switches of 2..8 cases with holes and nesting under a sampled label: for every difficulty 0..7 exactly one emitted copy applies where the switch has a position and the label permits, carrying that difficulty's case values, default-on bits as the label set them; (c) streams: instruction runs with arbitrary/partitioned masks -> decompile with switch recognition -> recompile -> same per-difficulty call log for d = 0..7; non-trivial = (a) a default-on flag is defined, (b) a hole or nesting, (c) a switch was recognised"
    }
    fn tape_len(&self, tier: Tier) -> usize { tier.pick(120, 200) }
    fn cases(&self, tier: Tier) -> u32 { tier.pick(60000, 1500000) }
    fn required_labels(&self, _tier: Tier) -> Vec<&'static str> { vec!["labels", "switch", "stream", "default_on_flag", "hole", "nested", "switch_recognised", "aux_in_label"] }

    fn fixed_cases(&self, tier: Tier, _known: &Known) -> Vec<Value> {
        // (a) with no user flags, and with every single default-on bit pattern (thorough)
        let mut out = vec![json!({"mode": "labels", "flags": []})];
        let n = tier.pick(16, 256);
        for pat in 0..n {
            let defs: Vec<Value> = (0..8).filter(|b| (pat >> b) & 1 == 1).map(|b| json!([b, "ABCDEFGH".chars().nth(b).unwrap().to_string(), true])).collect();
            out.push(json!({"mode": "labels", "flags": defs}));
        }
        out
    }

    fn generate(&self, tape: &mut Tape, _tier: Tier, known: &Known) -> Value {
        match tape.below(5) {
            0 => { let f = gen_flags(tape, !known.has("ambiguous-flag-name")); json!({"mode": "labels", "flags": f.to_json()}) }
            1 | 2 => {
                let f = gen_flags(tape, false);
                // label: a subset of names, possibly with '*', '-' sections
                let names: Vec<char> = f.name_to_bit().keys().copied().collect();
                let label = if tape.chance(1, 4) { None } else {
                    let mut s = String::new();
                    if tape.chance(1, 4) { s.push('*'); }
                    let n = tape.below(5);
                    for _ in 0..n { s.push(*tape.pick(&names)); }
                    if tape.chance(1, 3) { s.push('-'); let n = 1 + tape.below(2); for _ in 0..n { s.push(*tape.pick(&names)); } }
                    Some(s)
                };
                let nsw = 1 + tape.below(3);
                let mut next = 100;
                let mut args = vec![];
                let mut nested = false; let mut hole = false;
                // all switches of one statement have the same length (anything else is rejected by validate_difficulty)
                let ncases = 2 + tape.below(7);
                for i in 0..4 {
                    if i < nsw {
                        let mut cases = vec![];
                        for c in 0..ncases {
                            if c == 0 || tape.chance(2, 3) {
                                if tape.chance(1, 8) && !known.has("nested-diff-switch") {
                                    // nested switch of the same length
                                    let inner: Vec<Option<Expr>> = (0..ncases).map(|j| if j == 0 || tape.bool() { next += 1; Some(Expr::LitI(next)) } else { None }).collect();
                                    nested = true;
                                    cases.push(Some(Expr::DiffSwitch(inner)));
                                } else { next += 1; cases.push(Some(Expr::LitI(next))); }
                            } else { hole = true; cases.push(None); }
                        }
                        args.push(Expr::DiffSwitch(cases));
                    } else { next += 1; args.push(Expr::LitI(next)); }
                }
                let stmt = SNode { diff: label.clone(), kind: Stmt::Call { opcode: OP, name: None, args: args.clone(), pseudos: vec![] } };
                let mut text = String::from("{\n"); stmt.print(1, &mut text); text.push_str("}\n");
                json!({"mode": "switch", "flags": f.to_json(), "label": label, "text": text, "args": args.iter().map(super::c11::expr_to_json_ds).collect::<Vec<_>>(), "nested": nested, "hole": hole})
            }
            _ => {
                let f = gen_flags(tape, false);
                let n = 1 + tape.below(8);
                let partition = tape.chance(2, 3);
                let mut instrs = vec![];
                let mut bit = 0u32;
                let aux = f.default_on();
                let same_time = !tape.chance(1, 5);
                let same_tail = tape.bool();
                for i in 0..n {
                    let mask: u8 = if partition {
                        // contiguous difficulty bits starting where the previous one ended (the recogniser's precondition), aux bits on
                        let len = 1 + tape.below(3) as u32;
                        let mut m = 0u8; for b in bit..(bit + len).min(8) { m |= 1 << b; }
                        bit += len;
                        if tape.chance(1, 10) { m ^= 1 << tape.below(8); }   // near miss
                        (m & !aux) | (if tape.chance(1, 8) { 0 } else { aux })
                    } else { tape.raw() as u8 };
                    let a = [tape.below(4) as i32, if same_tail { 7 } else { tape.below(3) as i32 }, 9, if tape.chance(1, 4) { i as i32 } else { 0 }];
                    instrs.push(json!({"time": if same_time { 10 } else { 10 + (i as i32 / 3) * 5 }, "mask": mask, "args": a}));
                }
                json!({"mode": "stream", "flags": f.to_json(), "instrs": instrs})
            }
        }
    }

    fn check(&self, case: &Value, ctx: &mut CheckCtx) -> Outcome {
        let flags = Flags::from_json(&case["flags"]);
        let spec = spec_with_flags(&flags);
        let hooks = spec.hooks();
        let aux = flags.default_on();
        if aux != 0 { ctx.label("default_on_flag"); }
        match case["mode"].as_str().unwrap_or("") {
            "labels" => {
                ctx.label("labels");
                if aux != 0 { ctx.nontrivial(); }
                let ambiguous = flags.ambiguous();
                if ambiguous { ctx.label("ambiguous_names"); }
                let instrs: Vec<MInstr> = (0..256).map(|m| instr(0, m as u8, [m, 0, 0, 0])).collect();
                ctx.sub_evals += 256;
                // decompile
                let (text, labels) = match tx::with_truth(|truth| -> Result<(String, Vec<(i32, Option<String>)>), Outcome> {
                    if truth.apply_mapfile_str(&spec.mapfile_text(), truth::Game::Th10).is_err() {
                        let d = tx::diags(truth);
                        return Err(if tx::has_error_diag(&d) { Outcome::Discard("mapfile rejected".into()) } else { Outcome::Fail(Failure::new("c14:mapfile-err-without-diagnostic", spec.mapfile_text())) });
                    }
                    let opts = truth::DecompileOptions { diff_switches: false, ..Default::default() };
                    let stmts = tx::raise_flat(truth, &hooks, &tx::from_minstrs(&instrs), &opts).map_err(|_| Outcome::Fail(Failure::new("c14:labels:raise-failed", tx::diags(truth))))?;
                    let mut labels = vec![];
                    for s in &stmts { if let ast::StmtKind::Expr(e) = &s.kind { if let ast::Expr::Call(c) = &e.value { if let Some(k) = c.args.get(0).and_then(|a| a.as_const_int()) { labels.push((k, s.diff_label.as_ref().map(|l| l.string.string.clone()))); } } } }
                    let text = tx::format_at(&ast::Block(stmts), 100).map_err(|e| Outcome::Fail(Failure::new("c14:format-error", e)))?;
                    Ok((text, labels))
                }) { Ok(x) => x, Err(o) => return o };
                if labels.len() != 256 { return Outcome::Fail(Failure::new("c14:labels:statement-count", format!("{}", labels.len()))); }
                // the label text, read by the model, gives back the mask
                for (m, l) in &labels {
                    let want = *m as u8;
                    let got = match l { None => Some(0xFF), Some(s) => flags.parse_label(s) };
                    if got != Some(want) {
                        let sig = if ambiguous { "c14:labels:ambiguous-flag-name" } else { "c14:labels:label-text-denotes-other-mask" };
                        return Outcome::Fail(Failure::new(sig, format!("mask {:#04x} decompiles to label {:?}, which denotes {:?} under flags {:?}", want, l, got, flags.defs)));
                    }
                }
                // and truth's own parser agrees when the text is recompiled
                tx::with_truth(|truth| {
                    let compiled = match tx::compile_body(truth, &spec, &hooks, &text, tx::PipeOpts::default()) { Ok(c) => c, Err(stage) => return Outcome::Fail(Failure::new(format!("c14:labels:decompiled-text-does-not-compile:{:?}", stage), format!("{}\n{}", tx::diags(truth), text.chars().take(2000).collect::<String>()))) };
                    for i in tx::to_minstrs(&compiled.instrs) {
                        let k = i32::from_le_bytes([i.blob[0], i.blob[1], i.blob[2], i.blob[3]]);
                        if i.difficulty != k as u8 {
                            let sig = if ambiguous { "c14:labels:ambiguous-flag-name" } else { "c14:labels:recompiled-mask-differs" };
                            return Outcome::Fail(Failure::new(sig, format!("mask {:#04x} came back as {:#04x} (flags {:?})", k as u8, i.difficulty, flags.defs)));
                        }
                    }
                    Outcome::Pass
                })
            }
            "switch" => {
                ctx.label("switch");
                if case["hole"] == true { ctx.label("hole"); ctx.nontrivial(); }
                if case["nested"] == true { ctx.label("nested"); ctx.nontrivial(); }
                let text = case["text"].as_str().unwrap();
                let label_mask = match case["label"].as_str() { None => 0xFFu8, Some(s) => match flags.parse_label(s) { Some(m) => m, None => return Outcome::Discard("label uses unknown name".into()) } };
                if case["label"].is_string() && (label_mask & aux) != aux { ctx.label("aux_in_label"); }
                let args: Vec<Expr> = case["args"].as_array().unwrap().iter().map(super::c11::expr_from_json_ds).collect();
                tx::with_truth(|truth| {
                    let compiled = match tx::compile_body(truth, &spec, &hooks, text, tx::PipeOpts::default()) {
                        Ok(c) => c,
                        Err(stage) => { let d = tx::diags(truth); return if tx::has_error_diag(&d) { Outcome::Discard(format!("compile-error:{:?}", stage)) } else { Outcome::Fail(Failure::new("c14:err-without-diagnostic", text.to_string())) }; }
                    };
                    let copies: Vec<MInstr> = tx::to_minstrs(&compiled.instrs).into_iter().filter(|i| i.opcode == OP).collect();
                    let ncases = args.iter().map(ds_len).max().unwrap_or(1);
                    let show = || format!("{}\ncopies:\n{}", text, super::c02::dump(&copies));
                    for d in 0..8u32 {
                        let bit = 1u8 << d;
                        let with_bit: Vec<&MInstr> = copies.iter().filter(|c| c.difficulty & bit != 0).collect();
                        if aux & bit != 0 {
                            // default-on flag: every copy carries it exactly as the label set it
                            let want = label_mask & bit != 0;
                            if copies.iter().any(|c| (c.difficulty & bit != 0) != want) { return Outcome::Fail(Failure::new("c14:switch:default-on-bit-changed", format!("bit {} should be {} on every copy\n{}", d, want, show()))); }
                            continue;
                        }
                        let permitted = label_mask & bit != 0 && (d as usize) < ncases;
                        if !permitted {
                            if !with_bit.is_empty() { return Outcome::Fail(Failure::new("c14:switch:copy-on-excluded-difficulty", format!("difficulty {} is not permitted but a copy applies\n{}", d, show()))); }
                            continue;
                        }
                        if with_bit.len() != 1 { return Outcome::Fail(Failure::new("c14:switch:not-exactly-one-copy", format!("difficulty {}: {} copies apply\n{}", d, with_bit.len(), show()))); }
                        let want: Vec<i32> = args.iter().map(|a| ds_select(a, d as usize)).collect();
                        let got: Vec<i32> = with_bit[0].blob.chunks(4).map(|c| i32::from_le_bytes([c[0], c[1], c[2], c[3]])).collect();
                        if want != got { return Outcome::Fail(Failure::new("c14:switch:wrong-case-values", format!("difficulty {}: expected {:?}, copy carries {:?}\n{}", d, want, got, show()))); }
                    }
                    Outcome::Pass
                })
            }
            "stream" => {
                ctx.label("stream");
                let instrs: Vec<MInstr> = case["instrs"].as_array().unwrap().iter().map(|i| {
                    let a: Vec<i32> = i["args"].as_array().unwrap().iter().map(|x| x.as_i64().unwrap() as i32).collect();
                    instr(i["time"].as_i64().unwrap() as i32, i["mask"].as_u64().unwrap() as u8, [a[0], a[1], a[2], a[3]]) }).collect();
                let before = match logs_per_difficulty(&spec, &instrs) { Ok(l) => l, Err(e) => return Outcome::Discard(e) };
                let text = match tx::with_truth(|truth| -> Result<String, Outcome> {
                    truth.apply_mapfile_str(&spec.mapfile_text(), truth::Game::Th10).map_err(|e| { e.ignore(); Outcome::Discard("mapfile rejected".into()) })?;
                    let stmts = tx::raise_flat(truth, &hooks, &tx::from_minstrs(&instrs), &Default::default()).map_err(|_| Outcome::Fail(Failure::new("c14:stream:raise-failed", tx::diags(truth))))?;
                    if stmts.iter().any(|s| matches!(&s.kind, ast::StmtKind::Expr(e) if matches!(&e.value, ast::Expr::Call(c) if c.args.iter().any(|a| matches!(a.value, ast::Expr::DiffSwitch(_)))))) { ctx.label("switch_recognised"); ctx.nontrivial(); }
                    tx::format_at(&ast::Block(stmts), 100).map_err(|e| Outcome::Fail(Failure::new("c14:format-error", e)))
                }) { Ok(t) => t, Err(o) => return o };
                tx::with_truth(|truth| {
                    let compiled = match tx::compile_body(truth, &spec, &hooks, &text, tx::PipeOpts::default()) { Ok(c) => c, Err(stage) => return Outcome::Fail(Failure::new(format!("c14:stream:decompiled-text-does-not-compile:{:?}", stage), format!("{}\n{}", tx::diags(truth), text))) };
                    let again = tx::to_minstrs(&compiled.instrs);
                    let after = match logs_per_difficulty(&spec, &again) { Ok(l) => l, Err(e) => return Outcome::Fail(Failure::new("c14:stream:recompiled-not-executable", e)) };
                    for d in 0..8 { if before[d] != after[d] {
                        return Outcome::Fail(Failure::new("c14:stream:behaviour-differs", format!("difficulty {}: original {:?}\nrecompiled {:?}\noriginal:\n{}decompiled:\n{}\nrecompiled:\n{}", d, before[d], after[d], super::c02::dump(&instrs), text, super::c02::dump(&again))));
                    } }
                    Outcome::Pass
                })
            }
            _ => Outcome::Discard("unknown mode".into()),
        }
    }
}

fn ds_len(e: &Expr) -> usize { match e { Expr::DiffSwitch(cs) => cs.len().max(cs.iter().flatten().map(ds_len).max().unwrap_or(1)), _ => 1 } }
/// M-diff: the value a (possibly nested) switch denotes at difficulty d: the last explicit case at index <= d.
fn ds_select(e: &Expr, d: usize) -> i32 {
    match e {
        Expr::LitI(x) => *x,
        Expr::DiffSwitch(cs) => { let idx = (0..=d.min(cs.len() - 1)).rev().find(|i| cs[*i].is_some()).unwrap_or(0); ds_select(cs[idx].as_ref().unwrap(), d) }
        _ => 0,
    }
}
