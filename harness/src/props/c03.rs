//! C03 — a successful compile never writes a file that differs from what was asked.
use serde_json::{json, Value};
use truth::ast;
use crate::engine::*;
use crate::files::{self, FileStruct, Fmt};
use crate::gen::files::*;
use crate::props::c01::pick_fmt;
use crate::tx;

pub struct C03;

/// In-memory file -> comparable text: spans, display-only file names and file offsets removed.
pub fn normalise_debug(s: &str) -> String {
    let mut out = String::with_capacity(s.len());
    let mut skipping = false;
    for line in s.lines() {
        let t = line.trim_start();
        if skipping { if t.starts_with(')') { skipping = false; } continue; }
        if t.starts_with("binary_filename:") || t.starts_with("file_offset:") { if t.ends_with('(') { skipping = true; } continue; }
        // representation-only differences: a timeline instruction without @arg0 has extra_arg None in memory and 0 in the file;
        // the reader drops sprite ids that equal the automatic numbering (ids are the subject of C20)
        if t.starts_with("extra_arg:") || (t.starts_with("id:") && (t.ends_with("Some(") || t.ends_with("None,"))) { if t.ends_with('(') { skipping = true; } continue; }
        // `sp!(12..20 => value)` -> `sp!(value)`
        let mut l = line.to_string();
        while let Some(i) = l.find("sp!(") {
            if let Some(j) = l[i..].find(" => ") { let inner: String = l[i + 4..i + j].to_string(); if inner.chars().all(|c| c.is_ascii_digit() || c == '.') { l.replace_range(i..i + j + 4, "sp<"); continue; } }
            l.replace_range(i..i + 4, "sp<");
        }
        out.push_str(&l); out.push('\n');
    }
    out
}

pub fn scripts_of(f: &FileStruct) -> Vec<Vec<truth::llir::RawInstr>> {
    match f {
        FileStruct::Anm(a) => a.entries.iter().flat_map(|e| e.scripts.values().map(|s| s.script.instrs.clone())).collect(),
        FileStruct::Std(s) => vec![s.script.instrs.clone()],
        FileStruct::Msg(m) => m.scripts.values().map(|s| s.instrs.clone()).collect(),
        FileStruct::Mission(_) => vec![],
        FileStruct::Ecl(truth::EclFile::Olde(e)) => e.timelines.iter().map(|s| s.instrs.clone()).chain(e.subs.values().map(|s| s.instrs.clone())).collect(),
        FileStruct::Ecl(truth::EclFile::Stack(e)) => e.subs.values().map(|s| s.instrs.clone()).collect(),
    }
}

/// Literal value of a meta scalar, as JSON (ints modulo 2^32 as i64 of the i32 value).
fn scalar_json(e: &ast::Expr) -> Value {
    match e {
        ast::Expr::LitInt { value, .. } => json!(*value as i64),
        ast::Expr::LitFloat { value } => json!(*value as f64),
        ast::Expr::LitString(s) => json!(s.string.clone()),
        ast::Expr::UnOp(op, x) if op.value == ast::UnOpKind::Neg => match scalar_json(&x.value) { Value::Number(n) if n.is_i64() => json!((-(n.as_i64().unwrap())) as i32 as i64), Value::Number(n) => json!(-n.as_f64().unwrap()), v => json!({"$neg": v}) },
        ast::Expr::Var(v) => json!({"$var": format!("{:?}", v.value.name)}),
        other => json!({"$expr": format!("{:?}", other).chars().take(40).collect::<String>()}),
    }
}

pub fn meta_json(m: &ast::meta::Meta) -> Value {
    match m {
        ast::meta::Meta::Scalar(e) => scalar_json(&e.value),
        ast::meta::Meta::Array(items) => Value::Array(items.iter().map(|x| meta_json(&x.value)).collect()),
        ast::meta::Meta::Object(fields) => fields_json(&fields.value),
        ast::meta::Meta::Variant { name, fields } => { let mut o = fields_json(&fields.value); o["$variant"] = json!(name.value.to_string()); o }
    }
}
fn fields_json(f: &ast::meta::Fields) -> Value {
    let mut o = serde_json::Map::new();
    for (k, v) in f.iter() { o.insert(k.value.to_string(), meta_json(&v.value)); }
    Value::Object(o)
}

pub fn file_metas(f: &ast::ScriptFile) -> Vec<Value> {
    f.items.iter().filter_map(|i| match &i.value { ast::Item::Meta { fields, .. } => Some(fields_json(&fields.value)), _ => None }).collect()
}

/// Every value requested in `req` that is also present in `got` must be equal (`got` may omit defaults
/// and may add fields).  Returns the path of the first difference.
pub fn meta_subset_diff(req: &Value, got: &Value, path: &str) -> Option<String> {
    let symbolic = |v: &Value| v.as_object().map_or(false, |o| o.contains_key("$var") || o.contains_key("$expr"));
    if symbolic(req) || symbolic(got) { return None; }
    match (req, got) {
        (Value::Object(a), Value::Object(b)) => {
            for (k, v) in a { if k == "has_data" || k == "script" { continue; } if let Some(w) = b.get(k) { if let Some(d) = meta_subset_diff(v, w, &format!("{}.{}", path, k)) { return Some(d); } } }
            None
        }
        (Value::Array(a), Value::Array(b)) => {
            if a.len() != b.len() { return Some(format!("{}: {} items requested, {} read back", path, a.len(), b.len())); }
            for (i, (v, w)) in a.iter().zip(b).enumerate() { if let Some(d) = meta_subset_diff(v, w, &format!("{}[{}]", path, i)) { return Some(d); } }
            None
        }
        (Value::Number(a), Value::Number(b)) => {
            let same = match (a.as_i64(), b.as_i64()) { (Some(x), Some(y)) => x as i32 == y as i32, _ => a.as_f64() == b.as_f64() };
            if same { None } else { Some(format!("{}: requested {}, read back {}", path, a, b)) }
        }
        (a, b) => if a == b { None } else { Some(format!("{}: requested {}, read back {}", path, a, b)) },
    }
}

impl Property for C03 {
    fn id(&self) -> &'static str { "C03" }
    fn rule(&self) -> &'static str {
        "sources for ANM / STD / MSG / END / mission / pre-TH10 ECL whose metadata fields take boundary values of 8/16/32-bit fields and whose scripts are raw-blob instructions with boundary times, opcodes, masks, arg0s and blob lengths (0..65536 bytes), plus files with 255..70000 objects / sprites / table entries / subs (count fields), plus the general generated sources of C01; whenever compile succeeds: (1) the written bytes read back (same game) to an in-memory file equal, field for field, to the one the compiler produced, (2) every requested instruction (time, opcode, mask, arg0, blob) equals the re-read instruction at the same position, (3) every metadata value requested in the source equals the value in the decompiled re-read file wherever that field is printed. non-trivial = compile succeeded and at least one boundary value (>= 255 or negative) was requested"
    }
    fn tape_len(&self, tier: Tier) -> usize { tier.pick(250, 400) }
    fn cases(&self, tier: Tier) -> u32 { tier.pick(60_000, 1_500_000) }
    fn required_labels(&self, _tier: Tier) -> Vec<&'static str> { vec!["fmt:anm", "fmt:std", "fmt:msg", "fmt:end", "fmt:mission", "fmt:ecl", "compile:ok", "compile:rejected", "kind:boundary", "kind:general", "many", "instrs-compared", "typed-args-compared", "metas-compared"] }
    fn max_discard_fraction(&self) -> f64 { 0.05 }

    fn fixed_cases(&self, tier: Tier, _known: &Known) -> Vec<Value> {
        // count-field boundaries (expensive: a few per run)
        let mut out = vec![];
        let counts: &[usize] = match tier { Tier::Quick => &[255, 256, 65535, 65536], Tier::Thorough => &[255, 256, 257, 65535, 65536, 65537] };
        for (fmt, game) in [(Fmt::Std, "th08"), (Fmt::Std, "th12"), (Fmt::Anm, "th12"), (Fmt::Msg, "th08"), (Fmt::Mission, "th095"), (Fmt::Ecl, "th07"), (Fmt::Ecl, "th06")] {
            for &n in counts { out.push(json!({"kind": "many", "fmt": fmt.name(), "game": game, "count": n, "seed": n as u32 + 7})); }
        }
        out
    }

    fn generate(&self, tape: &mut Tape, tier: Tier, _known: &Known) -> Value {
        let fmt = pick_fmt(tape);
        let game = *tape.pick(games_for(fmt));
        if tape.chance(1, 4) {
            // (general sources also cover TH10+ ECL: compiled file vs re-read file)
            let game = if fmt == Fmt::Ecl && tape.chance(1, 2) { *tape.pick(MODERN_ECL_GAMES) } else { game };
            let f = gen_file(tape, fmt, game, tier.pick(8, 16));
            return json!({"kind": "general", "fmt": fmt.name(), "game": game, "text": f.text});
        }
        let game = if fmt == Fmt::Ecl && tape.chance(1, 4) { *tape.pick(MODERN_ECL_GAMES) } else { game };
        let f = gen_c03_file(tape, fmt, game, 0);
        let scripts: Vec<Value> = f.scripts.iter().map(|s| Value::Array(s.iter().map(|i| json!({"time": i.time, "opcode": i.opcode, "blob": crate::props::c16::hex_encode(&i.blob), "mask": i.mask, "arg0": i.arg0, "pop": i.pop, "nargs": i.nargs, "typed": i.typed.as_ref().map(|(sig, vals)| json!({"sig": sig, "args": vals}))})).collect())).collect();
        json!({"kind": "boundary", "fmt": fmt.name(), "game": game, "text": f.text, "scripts": scripts})
    }

    fn check(&self, case: &Value, ctx: &mut CheckCtx) -> Outcome {
        let fmt = Fmt::parse(case["fmt"].as_str().unwrap());
        let game = case["game"].as_str().unwrap();
        let g = files::game_from_str(game);
        ctx.label(format!("fmt:{}", fmt.name()));
        let kind = case["kind"].as_str().unwrap_or("boundary");
        ctx.label(format!("kind:{}", if kind == "many" { "boundary" } else { kind }));
        let (text, req_scripts): (String, Option<Vec<Value>>) = if kind == "many" {
            ctx.label("many");
            let seed = case["seed"].as_u64().unwrap_or(1) as u32;
            let data: Vec<u32> = { let mut x = (seed as u64).wrapping_mul(0x9E3779B97F4A7C15) | 1; (0..300).map(|_| { x ^= x << 13; x ^= x >> 7; x ^= x << 17; (x >> 20) as u32 }).collect() };
            let mut t = Tape::new(&data);
            let f = gen_c03_file(&mut t, fmt, game, case["count"].as_u64().unwrap_or(256) as usize);
            (f.text, None)
        } else { (case["text"].as_str().unwrap().to_string(), case["scripts"].as_array().cloned()) };

        // compile
        let compiled = tx::with_truth(|truth| match files::compile_file(truth, fmt, g, text.as_bytes(), &[], vec![]) {
            Ok(c) => Ok((c.bytes, normalise_debug(&c.file.debug_string()), tx::diags(truth))),
            Err(s) => Err((s, tx::diags(truth))),
        });
        let (bytes, compiled_dbg, _diags) = match compiled {
            Ok(x) => x,
            Err((s, d)) => {
                ctx.label("compile:rejected");
                if !tx::has_error_diag(&d) { return Outcome::Fail(Failure::new("c03:rejected-without-diagnostic", format!("{:?}\n{}", s, d))); }
                return Outcome::Pass;
            }
        };
        ctx.label("compile:ok");
        if text.contains("65535") || text.contains("65536") || text.contains("32768") || text.contains("2147483647") || text.contains(": -") || text.contains("ins_255") || text.contains("ins_256") || kind == "many" { ctx.nontrivial(); }

        // (1) read back, compare the in-memory forms
        let reread = tx::with_truth(|truth| {
            let _ = truth; // built-in tables are not needed to read
            match files::read_file(truth, fmt, g, &bytes, true) { Ok(f) => Ok((normalise_debug(&f.debug_string()), scripts_of(&f))), Err(_) => Err(tx::diags(truth)) }
        });
        let (reread_dbg, reread_scripts) = match reread {
            Ok(x) => x,
            Err(d) => return Outcome::Fail(Failure::new(format!("c03:written-file-cannot-be-read:{}:{}", fmt.name(), crate::props::c01::slug(&d)), format!("game {}: compile succeeded ({} bytes) but the file cannot be read back:\n{}\n--- source:\n{}", game, bytes.len(), d.chars().take(1500).collect::<String>(), text.chars().take(3000).collect::<String>()))),
        };
        let canon_names = matches!(fmt, Fmt::Msg | Fmt::End);
        let no_mask = fmt == Fmt::Ecl && g == truth::Game::Th06;
        let strip_names = |s: &str| { let t = strip_names(s); let t = if canon_names { canonical_script_names(&t) } else { t }; if no_mask { t.lines().filter(|l| !l.trim_start().starts_with("param_mask:")).collect::<Vec<_>>().join("\n") } else { t } };
        if strip_names(&compiled_dbg) != strip_names(&reread_dbg) {
            let (a, b) = (strip_names(&compiled_dbg), strip_names(&reread_dbg));
            let first = a.lines().zip(b.lines()).position(|(x, y)| x != y).unwrap_or(a.lines().count().min(b.lines().count()));
            let ctx_lines = |s: &str| s.lines().skip(first.saturating_sub(6)).take(10).collect::<Vec<_>>().join("\n");
            let field = a.lines().nth(first).unwrap_or("").trim().split(':').next().unwrap_or("").chars().filter(|c| c.is_ascii_alphanumeric() || *c == '_').collect::<String>();
            return Outcome::Fail(Failure::new(format!("c03:reread-differs:{}:{}", fmt.name(), field), format!("game {}: the file read back differs from the compiled in-memory file at line {}:\n--- compiled:\n{}\n--- read back:\n{}\n--- source:\n{}", game, first, ctx_lines(&a), ctx_lines(&b), text.chars().take(2500).collect::<String>())));
        }

        // (2) requested instructions
        if let Some(req) = &req_scripts {
            ctx.label("instrs-compared");
            if req.len() != reread_scripts.len() { return Outcome::Fail(Failure::new(format!("c03:script-count:{}", fmt.name()), format!("{} scripts requested, {} read back\n{}", req.len(), reread_scripts.len(), text.chars().take(2500).collect::<String>()))); }
            for (si, (rs, gs)) in req.iter().zip(&reread_scripts).enumerate() {
                let rs = rs.as_array().cloned().unwrap_or_default();
                if rs.len() != gs.len() { return Outcome::Fail(Failure::new(format!("c03:instr-count:{}", fmt.name()), format!("game {} script #{}: {} instructions requested, {} read back\n{}", game, si, rs.len(), gs.len(), text.chars().take(2500).collect::<String>()))); }
                for (ii, (r, gi)) in rs.iter().zip(gs).enumerate() {
                    let mut diffs = vec![];
                    if r["time"].as_i64() != Some(gi.time as i64) { diffs.push(format!("time {} -> {}", r["time"], gi.time)); }
                    if r["opcode"].as_i64() != Some(gi.opcode as i64) { diffs.push(format!("opcode {} -> {}", r["opcode"], gi.opcode)); }
                    if let Some(ty) = r.get("typed").filter(|t| !t.is_null()) {
                        // a typed call: decode the written bytes with the harness's own reading of the signature
                        ctx.label("typed-args-compared");
                        if let Ok(sig) = crate::model::codec::Sig::parse(ty["sig"].as_str().unwrap_or("")) {
                            let enc = crate::model::codec::Encoded { blob: gi.args_blob.clone(), mask: 0, extra_arg: gi.extra_arg };
                            match crate::model::codec::decode(&sig, &enc) {
                                Err(e) => diffs.push(format!("args: the written bytes {:02x?} do not decode under {}: {}", gi.args_blob, sig.print(), e)),
                                Ok(args) => for (k, (want, got)) in ty["args"].as_array().cloned().unwrap_or_default().iter().zip(&args).enumerate() {
                                    if let (Some(w), crate::model::codec::Arg::I(g2)) = (want.as_i64(), got) { if w != *g2 as i64 { diffs.push(format!("argument #{} of ins_{} ({}): requested {} -> written {}", k, gi.opcode, sig.print(), w, g2)); } }
                                },
                            }
                        }
                    } else if crate::props::c16::hex_decode(r["blob"].as_str().unwrap_or("")) != gi.args_blob { diffs.push(format!("blob of {} bytes -> {} bytes", r["blob"].as_str().unwrap_or("").len() / 2, gi.args_blob.len())); }
                    if let Some(m) = r["mask"].as_i64() { if m != gi.param_mask as i64 { diffs.push(format!("mask {} -> {}", m, gi.param_mask)); } }
                    if let Some(p) = r["pop"].as_i64() { if p != gi.pop as i64 { diffs.push(format!("pop {} -> {}", p, gi.pop)); } }
                    if let Some(n) = r["nargs"].as_i64() { if n != gi.arg_count as i64 { diffs.push(format!("nargs {} -> {}", n, gi.arg_count)); } }
                    if let Some(a) = r["arg0"].as_i64() { if a != gi.extra_arg.map_or(0, |x| x as i64) { diffs.push(format!("arg0 {} -> {:?}", a, gi.extra_arg)); } }
                    if !diffs.is_empty() {
                        let what = diffs[0].split(' ').next().unwrap_or("").to_string();
                        return Outcome::Fail(Failure::new(format!("c03:instr-field:{}:{}", fmt.name(), what), format!("game {} script #{} instruction #{}: {}\n--- source:\n{}", game, si, ii, diffs.join("; "), text.chars().take(2500).collect::<String>())));
                    }
                }
            }
        }

        // (3) requested metadata values vs the decompiled re-read file
        if kind != "many" {
            let parsed = tx::with_truth(|truth| truth.parse::<ast::ScriptFile>("<input>", text.as_bytes()).map(|f| file_metas(&f.value)).map_err(|e| e.ignore()));
            let dec = tx::with_truth(|truth| files::decompile_file(truth, fmt, g, &bytes, &truth::DecompileOptions::new(), &[]).map(|f| file_metas(&f)).map_err(|_| tx::diags(truth)));
            if let (Ok(req_m), Ok(got_m)) = (parsed, dec) {
                ctx.label("metas-compared");
                if req_m.len() == got_m.len() {
                    for (i, (r, g2)) in req_m.iter().zip(&got_m).enumerate() {
                        if let Some(d) = meta_subset_diff(r, g2, &format!("meta#{}", i)) {
                            let field = d.split(':').next().unwrap_or("").rsplit('.').next().unwrap_or("").chars().filter(|c| c.is_ascii_alphanumeric() || *c == '_').collect::<String>();
                            return Outcome::Fail(Failure::new(format!("c03:meta-value:{}:{}", fmt.name(), field), format!("game {}: {}\n--- source:\n{}", game, d, text.chars().take(2500).collect::<String>())));
                        }
                    }
                }
            }
        }
        Outcome::Pass
    }
}

/// ANM / MSG keep user-chosen script and sprite names in memory; the reader invents its own. Compare without them.
fn strip_names(s: &str) -> String {
    s.lines().map(|l| {
        let t = l.trim_start();
        // map keys look like `sp<"name">: Script {` or `"name": RawScript {`
        if (t.ends_with(": RawScript {") || t.ends_with(": Script {") || t.ends_with(": Sprite {") || t.ends_with(": Object {")) && !t.starts_with("script:") { if let Some(i) = l.find(": ") { return format!("{}<name>{}", &l[..l.len() - t.len()], &l[i..]); } }
        l.to_string()
    }).collect::<Vec<_>>().join("\n")
}

/// MSG: the reader names scripts by first appearance in the table; rename `scriptN` tokens on both sides by first occurrence.
fn canonical_script_names(s: &str) -> String {
    let mut map: Vec<String> = vec![];
    let mut out = String::new();
    let b = s.as_bytes();
    let mut i = 0;
    while i < b.len() {
        if s[i..].starts_with("script") && (i == 0 || !(b[i - 1].is_ascii_alphanumeric() || b[i - 1] == b'_')) {
            let mut j = i + 6;
            while j < b.len() && b[j].is_ascii_digit() { j += 1; }
            if j > i + 6 && (j == b.len() || !(b[j].is_ascii_alphanumeric() || b[j] == b'_')) {
                let name = s[i..j].to_string();
                let k = match map.iter().position(|n| *n == name) { Some(k) => k, None => { map.push(name); map.len() - 1 } };
                out.push_str(&format!("S{}", k));
                i = j; continue;
            }
        }
        let ch = s[i..].chars().next().unwrap();
        out.push(ch); i += ch.len_utf8();
    }
    out
}
