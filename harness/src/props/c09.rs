//! C09 — the type checker accepts exactly the well-typed scripts and predicts value types.
use serde_json::{json, Value};
use truth::ast;
use crate::engine::*;
use crate::gen::{body::*, lang::*, prog::*};
use crate::model::ops::Val;
use crate::tx;

pub struct C09;

fn count_exprs(body: &mut [SNode]) -> usize { let mut n = 0; for_each_expr_mut(body, 0, &mut |_, _| n += 1); n }

fn other_ty_reg(spec: &LangSpec, ty: Ty, tape: &mut Tape) -> VarRef {
    let regs: Vec<&RegSpec> = spec.regs.iter().filter(|r| r.ty == Some(ty) && r.class == RegClass::Gp).collect();
    let r = tape.pick(&regs);
    VarRef::Reg { id: r.id, ty: r.ty, alias: r.alias.clone() }
}

/// Apply one mutation to expression node number `k`; returns a description and the site.
fn mutate_expr(body: &mut [SNode], k: usize, tape: &mut Tape, spec: &LangSpec) -> Option<(String, ExprSite)> {
    let mut i = 0;
    let mut done: Option<(String, ExprSite)> = None;
    let choice = tape.below(8);
    let data = tape.fork(8);
    for_each_expr_mut(body, 0, &mut |e, site| {
        if i == k && done.is_none() {
            let mut t = Tape::new(&data);
            let old = e.clone();
            let descr = match (&old, choice) {
                (Expr::LitI(x), 0..=3) => { *e = Expr::LitF(*x as f32 * 0.5 + 1.5); "int literal -> float literal" }
                (Expr::LitF(_), 0..=3) => { *e = Expr::LitI(3); "float literal -> int literal" }
                (Expr::Var(v), 0 | 1) => {
                    match v.read_ty() { Some(t0) if t0 != Ty::Str => { *e = Expr::Var(VarUse::plain(other_ty_reg(spec, t0.other(), &mut t))); "variable -> variable of the other type" } _ => { *e = Expr::LitF(0.5); "variable -> float literal" } }
                }
                (Expr::Var(v), 2 | 3) => { let mut v2 = v.clone(); v2.sigil = match v.sigil { None => Some(v.var.inherent_ty().unwrap_or(Ty::Int).other()), Some(s) => Some(s.other()) }; *e = Expr::Var(v2); "add / flip sigil" }
                (Expr::Var(v), 4) if v.sigil.is_some() => { let mut v2 = v.clone(); v2.sigil = None; *e = Expr::Var(v2); "remove sigil" }
                (Expr::Bin(op, a, b), 0..=3) => {
                    let ops = ["+", "-", "*", "==", "<", "&", "|", "<<", "&&", "||", ">>>", "%"];
                    let mut nop = *t.pick(&ops); if nop == op { nop = if is_arith(op) { "&" } else { "+" }; }
                    *e = Expr::Bin(nop.into(), a.clone(), b.clone()); "change binary operator"
                }
                (Expr::Bin(_, a, _), 4) => { *e = (**a).clone(); "replace binary expression by its left operand" }
                (Expr::Un(_, a), 0 | 1) => { *e = (**a).clone(); "unwrap unary operator / cast" }
                (Expr::Un(op, a), 2 | 3) => { let ops = ["-", "!", "~", "sin", "_S", "_f", "int", "float", "$", "%", "sqrt"]; let mut nop = *t.pick(&ops); if nop == op { nop = "!"; } *e = Expr::Un(nop.into(), a.clone()); "change unary operator" }
                (Expr::Ternary(c, a, _), 0..=2) => { *e = Expr::Ternary(c.clone(), a.clone(), Box::new(Expr::LitF(2.5))); "ternary branch -> float literal" }
                (Expr::Ternary(_, a, b), 3) => { *e = Expr::Ternary(Box::new(Expr::LitF(1.0)), a.clone(), b.clone()); "ternary condition -> float literal" }
                (Expr::DiffSwitch(cs), 0..=3) => { let mut cs2 = cs.clone(); let n = cs2.len(); cs2[n - 1] = Some(Expr::LitF(0.25)); if let Some(Some(Expr::LitF(_))) = cs.first() { cs2[n - 1] = Some(Expr::LitI(7)); } *e = Expr::DiffSwitch(cs2); "difficulty switch case of another type" }
                (_, _) => {
                    // wrap in an operator
                    let w = *t.pick(&["_S", "_f", "sin", "-", "!", "~", "int", "float"]);
                    *e = Expr::Un(w.into(), Box::new(old.clone())); "wrap in unary operator / cast"
                }
            };
            done = Some((descr.to_string(), site.clone()));
        }
        i += 1;
    });
    done
}

/// statement-level mutations: arity, declaration type, times count / clobber, assignment target
fn mutate_stmt(body: &mut [SNode], tape: &mut Tape, spec: &LangSpec) -> Option<String> {
    let mut n = 0;
    fn count(b: &[SNode], n: &mut usize) { visit_stmts(b, 0, &mut |_, _| *n += 1); }
    count(body, &mut n);
    if n == 0 { return None; }
    let k = tape.below(n);
    let choice = tape.below(4);
    let data = tape.fork(4);
    let mut i = 0;
    fn go(b: &mut [SNode], i: &mut usize, k: usize, choice: usize, data: &[u32], spec: &LangSpec) -> Option<String> {
        for s in b.iter_mut() {
            if *i == k {
                *i += 1;
                let mut t = Tape::new(data);
                return match &mut s.kind {
                    Stmt::Call { args, .. } => { if choice < 2 && !args.is_empty() { args.pop(); Some("drop a call argument".into()) } else { args.push(Expr::LitI(0)); Some("add a call argument".into()) } }
                    Stmt::Decl { ty, .. } => { *ty = ty.other(); Some("flip declaration type".into()) }
                    Stmt::Times { count, clobber, .. } => { if choice == 3 && clobber.is_some() { *count = Expr::LitF(2.0); *clobber = Some(VarUse::plain(other_ty_reg(spec, Ty::Float, &mut t))); Some("float times count AND float counter (they agree with each other, but a count must be an integer)".into()) } else if choice < 2 || clobber.is_none() { *count = Expr::LitF(2.0); Some("float times count".into()) } else { *clobber = Some(VarUse::plain(other_ty_reg(spec, Ty::Float, &mut t))); Some("float times clobber".into()) } }
                    Stmt::Assign { var, .. } => { let t0 = var.read_ty().unwrap_or(Ty::Int); *var = VarUse::plain(other_ty_reg(spec, t0.other(), &mut t)); Some("assignment target of the other type".into()) }
                    Stmt::If { arms, .. } => { arms[0].1 = Expr::LitF(1.0); Some("float condition".into()) }
                    Stmt::While { cond, .. } | Stmt::DoWhile { cond, .. } if !contains_predec(cond) => { *cond = Expr::Bin("+".into(), Box::new(Expr::LitF(1.0)), Box::new(Expr::LitF(0.0))); Some("float loop condition".into()) }
                    _ => None,
                };
            }
            *i += 1;
            let r = match &mut s.kind {
                Stmt::If { arms, els } => { let mut r = None; for (_, _, b) in arms.iter_mut() { if r.is_none() { r = go(b, i, k, choice, data, spec); } } if r.is_none() { if let Some(e) = els { r = go(e, i, k, choice, data, spec); } } r }
                Stmt::While { body, .. } | Stmt::DoWhile { body, .. } | Stmt::Times { body, .. } | Stmt::Loop { body } | Stmt::Block(body) => go(body, i, k, choice, data, spec),
                _ => None,
            };
            if r.is_some() || *i > k { return r; }
        }
        None
    }
    go(body, &mut i, k, choice, &data, spec)
}

impl Property for C09 {
    fn id(&self) -> &'static str { "C09" }
    fn rule(&self) -> &'static str {
        "generated well-typed programs and single-point mutants (literal type, variable of another type, sigil add/flip/remove, cast wrap/unwrap, operator change, ternary/difficulty-switch branch type, call arity, declaration type, float condition/times count/clobber, assignment target) at a uniformly chosen node: accept/reject of passes::type_check::run vs the reference typer (M-typer); for accepted programs the checker's expression types vs the types of AstVm-evaluated values; non-trivial = mutation site nested (block depth >= 1 or expression depth >= 2)"
    }
    fn tape_len(&self, tier: Tier) -> usize { tier.pick(400, 700) }
    fn cases(&self, tier: Tier) -> u32 { tier.pick(200000, 4000000) }
    fn required_labels(&self, _tier: Tier) -> Vec<&'static str> { vec!["expect:accept", "expect:reject", "mutant", "original", "site:cond", "site:arg", "site:init", "site:rhs", "in_free_block", "stmt_mutation", "types_compared"] }

    fn generate(&self, tape: &mut Tape, _tier: Tier, known: &Known) -> Value {
        let knobs = LangKnobs { pad_intrinsics: 0, rich: true, anti_scratch: false };
        let mut spec = gen_lang(tape, &knobs);
        for r in spec.regs.iter_mut() { if r.class == RegClass::Gp && r.id < 1008 { r.scratch = true; } }
        let mut cfg = BodyCfg::full();
        cfg.raw_jumps = true; cfg.max_stmts = 12;
        cfg.const_items = !known.has("const-item-not-type-checked");
        let mut body = { let mut g = BodyGen::new(tape, &spec, cfg); g.body() };
        let mutate = !tape.chance(1, 5);
        let mut descr = "none".to_string();
        let mut site = json!(null);
        if mutate {
            if tape.chance(1, 4) {
                if let Some(d) = mutate_stmt(&mut body, tape, &spec) { descr = d; site = json!({"stmt_mutation": true}); }
            } else {
                let n = count_exprs(&mut body);
                if n > 0 {
                    // bias towards nested sites: try a few indices and keep a deep one when available
                    let k = tape.below(n);
                    if let Some((d, s)) = mutate_expr(&mut body, k, tape, &spec) {
                        descr = d;
                        site = json!({"stmt": s.stmt, "role": s.role, "block_depth": s.depth(), "expr_depth": s.expr_depth, "in_free_block": s.in_free_block()});
                    }
                }
            }
        }
        if known.has("free-block-not-type-checked") && site["in_free_block"] == true { descr = "none".into(); }
        let verdict = check_body(&body, &spec.sigs);
        let text = format!("{{\n{}}}\n", print_body(&body));
        json!({"spec": spec.to_json(), "text": text, "expect_ok": verdict.is_ok(), "why": verdict.err().map(|e| e.0), "mutation": descr, "site": site})
    }

    fn check(&self, case: &Value, ctx: &mut CheckCtx) -> Outcome {
        let spec = LangSpec::from_json(&case["spec"]);
        let text = case["text"].as_str().unwrap();
        let expect_ok = case["expect_ok"] == true;
        let hooks = spec.hooks();
        ctx.label(if expect_ok { "expect:accept" } else { "expect:reject" });
        ctx.label(if case["mutation"] == "none" { "original" } else { "mutant" });
        let site = &case["site"];
        if site["stmt_mutation"] == true { ctx.label("stmt_mutation"); }
        if let Some(r) = site["role"].as_str() { ctx.label(format!("site:{}", r)); }
        if site["in_free_block"] == true { ctx.label("in_free_block"); }
        if site["block_depth"].as_u64().unwrap_or(0) >= 1 || site["expr_depth"].as_u64().unwrap_or(0) >= 2 { ctx.nontrivial(); }
        tx::with_truth(|truth| {
            let opts = tx::PipeOpts { const_simplify: false, lower: false, debug_info: false, stop_after_typecheck: true };
            let res = tx::compile_body(truth, &spec, &hooks, text, opts);
            let d = tx::diags(truth);
            let accepted = match &res {
                Ok(_) => true,
                Err(tx::Stage::TypeCheck) => false,
                Err(stage) => { return if tx::has_error_diag(&d) { Outcome::Discard(format!("rejected before type checking: {:?}", stage)) } else { Outcome::Fail(Failure::new("c09:err-without-diagnostic", format!("{:?}", stage))) }; }
            };
            if !accepted && !tx::has_error_diag(&d) { return Outcome::Fail(Failure::new("c09:rejected-without-diagnostic", text.to_string())); }
            let where_ = if site["in_free_block"] == true { ":in-free-block" } else if site["role"] == "const" { ":const-item" } else { "" };
            if accepted && !expect_ok {
                return Outcome::Fail(Failure::new(format!("c09:accepts-ill-typed{}", where_), format!("mutation: {} ({})\nreference typer: {}\n{}", case["mutation"], site, case["why"], text)));
            }
            if !accepted && expect_ok {
                return Outcome::Fail(Failure::new(format!("c09:rejects-well-typed{}", where_), format!("mutation: {} ({})\n{}\n{}", case["mutation"], site, d, text)));
            }
            if !accepted { return Outcome::Pass; }
            // accepted: predicted expression types vs evaluated value types
            let block = res.unwrap().structured;
            let Ok(raw) = tx::to_raw(truth, &block) else { return Outcome::Pass; };
            let mut vm = truth::vm::AstVm::new().with_difficulty(0);
            for r in &spec.regs { vm.set_reg(truth::RegId(r.id), tx::val_to_sv(match r.ty { Some(Ty::Float) => Val::F(1.5), _ => Val::I(3) })); }
            let mut exprs: Vec<&truth::Sp<ast::Expr>> = vec![];
            for s in &raw.0 { match &s.kind {
                ast::StmtKind::Assignment { value, .. } => exprs.push(value),
                ast::StmtKind::Expr(e) => if let ast::Expr::Call(c) = &e.value { for a in &c.args { exprs.push(a); } },
                _ => {}
            } }
            for e in exprs {
                if !expr_is_evaluable(e) { continue; }
                let ctx2 = truth.ctx();
                let predicted = e.compute_ty(ctx2).as_value_ty();
                let evaluated = catch(|| vm.eval(&e.value, &ctx2.resolutions)).ok().map(|v| v.ty());
                if let (Some(p), Some(v)) = (predicted, evaluated) {
                    ctx.label("types_compared");
                    ctx.sub_evals += 1;
                    if p != v { return Outcome::Fail(Failure::new("c09:predicted-type-differs-from-value-type", format!("`{}`: checker says {:?}, evaluation gives {:?}", truth::fmt::stringify(&e.value), p, v))); }
                }
            }
            Outcome::Pass
        })
    }
}

/// no named (non-register) variables, no label properties: AstVm::eval can run it from a register valuation
fn expr_is_evaluable(e: &truth::Sp<ast::Expr>) -> bool {
    use truth::ast::{Visit, Visitable};
    struct V(bool);
    impl Visit for V {
        fn visit_var(&mut self, v: &truth::Sp<ast::Var>) { if !matches!(v.name, ast::VarName::Reg { .. }) { self.0 = false; } }
        fn visit_expr(&mut self, e: &truth::Sp<ast::Expr>) {
            if matches!(e.value, ast::Expr::LabelProperty { .. } | ast::Expr::Call(_) | ast::Expr::EnumConst { .. } | ast::Expr::XcrementOp { .. }) { self.0 = false; }
            // integer division / remainder by a possibly zero value would panic in the VM
            if let ast::Expr::BinOp(_, op, _) = &e.value { if matches!(op.value, ast::BinOpKind::Div | ast::BinOpKind::Rem) { self.0 = false; } }
            ast::walk_expr(self, e);
        }
    }
    let mut v = V(true);
    e.visit_with(&mut v);
    v.0
}
