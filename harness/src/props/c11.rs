//! C11 — compile-time evaluation agrees with run-time evaluation.
use std::collections::BTreeMap;
use serde_json::{json, Value};
use truth::ast;
use crate::engine::*;
use crate::gen::{body::*, lang::*, prog::*};
use crate::model::{consteval, ops::{self, Val, EvalErr}};
use crate::tx;
use super::c02::{valuations_from_json, valuations_to_json};

pub struct C11;

const INTS: &[i32] = &[0, 1, -1, 2, -2, 3, 7, 31, 32, 33, -32, -31, 63, 64, 255, 256, 65535, 65536, i32::MAX, i32::MIN, i32::MIN + 1, i32::MAX - 1, 0x40000000, -0x40000000, 1000];
fn floats() -> Vec<f32> { vec![0.0, -0.0, 1.0, -1.0, 1.5, -1.5, 0.5, 2.0, 3.0, 0.1, 100.0, f32::MAX, f32::MIN, f32::MIN_POSITIVE, f32::from_bits(1), f32::INFINITY, f32::NEG_INFINITY, 16777216.0, 2147483520.0, -2147483648.0, 0.33333334] }

fn flit(x: f32) -> String {
    if x.is_nan() { "NAN".into() } else if x == f32::INFINITY { "INF".into() } else if x == f32::NEG_INFINITY { "(-INF)".into() } else { Expr::LitF(x).print() }
}

fn same_const(a: Val, b: Val) -> bool {
    match (a, b) { (Val::F(x), Val::F(y)) if x.is_nan() && y.is_nan() => true, _ => a.same(b) }
}

/// Pull the (folded) right-hand sides of all top-level assignments out of a block.
fn assignment_values(block: &ast::Block) -> Vec<Option<Val>> {
    block.0.iter().filter_map(|s| match &s.kind {
        ast::StmtKind::Assignment { value, .. } => Some(value.to_const().and_then(|v| tx::sv_to_val(&v))),
        _ => None,
    }).collect()
}

fn spec_for_consts() -> LangSpec { default_lang() }

impl Property for C11 {
    fn id(&self) -> &'static str { "C11" }
    fn rule(&self) -> &'static str {
        "(a) fixed: every binary/unary operator x all pairs of boundary operands (exhaustive over the boundary sets), folded literal vs M-ops bit-exact (logical operators by truthiness), plus undefined operations (int / 0, % 0) which must be diagnosed; (b) random constant trees depth <= 5; (c) partially constant trees with registers: AstVm(e) vs AstVm(const_simplify(e)) over 8 valuations; (d) chains of 1..6 const definitions in random order with sigil casts and cycles: lowered call with the name vs with the inlined expression, debug-info const values vs M-ops; non-trivial = an operand at a boundary value, or a chain of length >= 2"
    }
    fn tape_len(&self, tier: Tier) -> usize { tier.pick(200, 400) }
    fn cases(&self, tier: Tier) -> u32 { tier.pick(300000, 6000000) }
    fn required_labels(&self, _tier: Tier) -> Vec<&'static str> { vec!["table", "tree", "partial", "chain", "undefined", "cycle"] }

    fn fixed_cases(&self, _tier: Tier, _known: &Known) -> Vec<Value> {
        let mut out = vec![];
        for op in ops::BINOPS {
            out.push(json!({"mode": "table", "op": op, "ty": "int"}));
            if ops::ARITH.contains(op) || ops::COMPARE.contains(op) { out.push(json!({"mode": "table", "op": op, "ty": "float"})); }
        }
        for op in ["-", "!", "~", "int", "float"] { out.push(json!({"mode": "utable", "op": op, "ty": "int"})); }
        for op in ["-", "sin", "cos", "tan", "asin", "acos", "atan", "sqrt", "int", "float"] { out.push(json!({"mode": "utable", "op": op, "ty": "float"})); }
        // undefined operations
        for num in [0, 1, -1, i32::MIN, 7] { for op in ["/", "%"] {
            out.push(json!({"mode": "undefined", "text": format!("{{\n    REG[1011] = {} {} 0;\n}}\n", Expr::LitI(num).print(), op)}));
            out.push(json!({"mode": "undefined", "text": format!("{{\n    const int X = {} {} 0;\n    ins_200(X);\n}}\n", Expr::LitI(num).print(), op)}));
            out.push(json!({"mode": "undefined", "text": format!("{{\n    REG[1011] = {} {} (3 - 3);\n}}\n", Expr::LitI(num).print(), op)}));
        } }
        out
    }

    fn generate(&self, tape: &mut Tape, _tier: Tier, known: &Known) -> Value {
        let k = tape.below(3);
        match k {
            0 => {
                // (b) random constant tree
                let ty = if tape.bool() { Ty::Float } else { Ty::Int };
                let e = gen_const_tree(tape, ty, 5, &[], known.has("const-div-by-zero"));
                json!({"mode": "tree", "ty": ty.kw(), "expr": e.print_top(), "tree": expr_to_json(&e)})
            }
            1 => {
                // (c) partially constant tree with registers
                let knobs = LangKnobs { pad_intrinsics: 0, rich: true, anti_scratch: false };
                let mut spec = gen_lang(tape, &knobs);
                for r in spec.regs.iter_mut() { if r.class == RegClass::Gp && r.id < 1008 { r.scratch = true; } }
                let ty = if tape.bool() { Ty::Float } else { Ty::Int };
                let mut cfg = BodyCfg::full(); cfg.diff = false; cfg.expr_depth = 4;
                let e = { let mut g = BodyGen::new(tape, &spec, cfg); g.expr(ty, 3) };
                // mix in constant subtrees so that simplification has something to do
                let e = match tape.below(4) {
                    0 => e,
                    1 => { let c = gen_const_tree(tape, ty, 2, &[], true); Expr::Bin((*tape.pick(&["+", "-", "*"])).into(), Box::new(c), Box::new(e)) }
                    2 => { let c = gen_const_tree(tape, ty, 2, &[], true); Expr::Bin((*tape.pick(&["+", "-", "*"])).into(), Box::new(e), Box::new(c)) }
                    _ => { let c = gen_const_tree(tape, Ty::Int, 2, &[], true); let e2 = gen_const_tree(tape, ty, 1, &[], true); if tape.bool() { Expr::Ternary(Box::new(c), Box::new(e), Box::new(e2)) } else { Expr::Ternary(Box::new(c), Box::new(e2), Box::new(e)) } }
                };
                let target = if ty == Ty::Int { 1011 } else { 1013 };
                let text = format!("{{\n    REG[{}] = {};\n}}\n", target, e.print_top());
                let vals: Vec<Vec<(i32, Val)>> = gen_valuations(tape, &spec, 8);
                json!({"mode": "partial", "spec": spec.to_json(), "text": text, "valuations": valuations_to_json(&vals), "target": target})
            }
            _ => {
                // (d) const chain
                let n = 1 + tape.below(6);
                let cycle = tape.chance(1, 8);
                let mut defs: Vec<(String, Ty, Expr)> = vec![];
                for i in 0..n {
                    let ty = if tape.chance(1, 3) { Ty::Float } else { Ty::Int };
                    // may refer to later consts (forward references): names i+1..n
                    let avail: Vec<(String, Ty)> = ((i + 1)..n).map(|j| (format!("K{}", j), Ty::Int)).collect();
                    defs.push((format!("K{}", i), ty, gen_const_tree(tape, ty, 2, &avail, known.has("const-div-by-zero"))));
                }
                // fix the types of references: we only know them after choosing all types
                let tys: BTreeMap<String, Ty> = defs.iter().map(|(n, t, _)| (n.clone(), *t)).collect();
                for d in defs.iter_mut() { fix_ref_types(&mut d.2, &tys); }
                if cycle && n >= 1 {
                    // make the last const refer to the first
                    let last = defs.len() - 1;
                    let t0 = defs[0].1; let tl = defs[last].1;
                    let r = Expr::Var(VarUse { var: VarRef::Local { name: "K0".into(), ty: t0 }, sigil: if t0 != tl { Some(tl) } else { None } });
                    let old = defs[last].2.clone();
                    defs[last].2 = if tl == Ty::Int { Expr::Bin("+".into(), Box::new(old), Box::new(r)) } else { Expr::Bin("+".into(), Box::new(old), Box::new(r)) };
                    // K0 must (transitively) use the last one for a real cycle
                    if last > 0 { let tl = defs[last].1; let t0 = defs[0].1; let r2 = Expr::Var(VarUse { var: VarRef::Local { name: format!("K{}", last), ty: tl }, sigil: if t0 != tl { Some(t0) } else { None } }); let old0 = defs[0].2.clone(); defs[0].2 = Expr::Bin("+".into(), Box::new(old0), Box::new(r2)); }
                }
                // random textual order
                let mut order: Vec<usize> = (0..n).collect();
                for i in (1..n).rev() { let j = tape.below(i + 1); order.swap(i, j); }
                json!({"mode": "chain", "cycle": cycle,
                       "defs": defs.iter().map(|(n, t, e)| json!({"name": n, "ty": t.kw(), "expr": e.print_top(), "tree": expr_to_json(e)})).collect::<Vec<_>>(),
                       "order": order})
            }
        }
    }

    fn check(&self, case: &Value, ctx: &mut CheckCtx) -> Outcome {
        let mode = case["mode"].as_str().unwrap_or("");
        match mode {
            "table" | "utable" => check_table(case, ctx),
            "undefined" => check_undefined(case, ctx),
            "tree" => check_tree(case, ctx),
            "partial" => check_partial(case, ctx),
            "chain" => check_chain(case, ctx),
            _ => Outcome::Discard("unknown mode".into()),
        }
    }
}

// ---------------------------------------------------------------------------------------------

pub fn expr_to_json(e: &Expr) -> Value {
    match e {
        Expr::LitI(x) => json!({"i": x}),
        Expr::LitF(x) => json!({"f": x.to_bits()}),
        Expr::Bin(op, a, b) => json!({"bin": op, "a": expr_to_json(a), "b": expr_to_json(b)}),
        Expr::Un(op, a) => json!({"un": op, "a": expr_to_json(a)}),
        Expr::Ternary(c, a, b) => json!({"tern": expr_to_json(c), "a": expr_to_json(a), "b": expr_to_json(b)}),
        Expr::Var(v) => match &v.var { VarRef::Local { name, ty } => json!({"ref": name, "ty": ty.kw(), "sigil": v.sigil.map(|t| t.kw())}), _ => json!({"unsupported": true}) },
        _ => json!({"unsupported": true}),
    }
}
pub fn expr_from_json(v: &Value) -> Expr {
    if let Some(x) = v.get("i") { return Expr::LitI(x.as_i64().unwrap() as i32); }
    if let Some(x) = v.get("f") { return Expr::LitF(f32::from_bits(x.as_u64().unwrap() as u32)); }
    if let Some(op) = v.get("bin") { return Expr::Bin(op.as_str().unwrap().into(), Box::new(expr_from_json(&v["a"])), Box::new(expr_from_json(&v["b"]))); }
    if let Some(op) = v.get("un") { return Expr::Un(op.as_str().unwrap().into(), Box::new(expr_from_json(&v["a"]))); }
    if let Some(c) = v.get("tern") { return Expr::Ternary(Box::new(expr_from_json(c)), Box::new(expr_from_json(&v["a"])), Box::new(expr_from_json(&v["b"]))); }
    if let Some(n) = v.get("ref") { return Expr::Var(VarUse { var: VarRef::Local { name: n.as_str().unwrap().into(), ty: Ty::from_kw(v["ty"].as_str().unwrap()) }, sigil: v["sigil"].as_str().map(Ty::from_kw) }); }
    Expr::LitI(0)
}

fn fix_ref_types(e: &mut Expr, tys: &BTreeMap<String, Ty>) {
    match e {
        Expr::Var(v) => { if let VarRef::Local { name, ty } = &mut v.var { let want = v.sigil.unwrap_or(*ty); if let Some(t) = tys.get(name) { *ty = *t; v.sigil = if *t != want { Some(want) } else { v.sigil }; } } }
        Expr::Bin(_, a, b) => { fix_ref_types(a, tys); fix_ref_types(b, tys); }
        Expr::Un(_, a) => fix_ref_types(a, tys),
        Expr::Ternary(c, a, b) => { fix_ref_types(c, tys); fix_ref_types(a, tys); fix_ref_types(b, tys); }
        _ => {}
    }
}

/// A well-typed constant expression tree of type `ty`.  `refs`: const names that may be referenced (recorded as int; fixed later).
pub fn gen_const_tree(tape: &mut Tape, ty: Ty, depth: usize, refs: &[(String, Ty)], avoid_div_zero: bool) -> Expr {
    let lit = |tape: &mut Tape, ty: Ty| -> Expr {
        match ty {
            Ty::Int => if tape.chance(1, 6) { Expr::LitI(tape.i32_any()) } else { Expr::LitI(*tape.pick(INTS)) },
            _ => { let fs = floats(); let x = *tape.pick(&fs); if x.is_finite() { Expr::LitF(x) } else { Expr::LitF(1.0e30) } }
        }
    };
    if depth == 0 { return lit(tape, ty); }
    let k = tape.below(10);
    match k {
        0 | 1 => lit(tape, ty),
        2 if !refs.is_empty() => {
            let (n, _) = tape.pick(refs).clone();
            // reference with the wanted read type; the inherent type is fixed up later
            // (sometimes with a redundant sigil: `%K` where K is a float const, `$K` where it is an int const)
            Expr::Var(VarUse { var: VarRef::Local { name: n, ty }, sigil: if tape.chance(1, 3) { Some(ty) } else { None } })
        }
        3 | 4 | 5 => {
            let op = *tape.pick(&["+", "-", "*", "/", "%"]);
            let a = gen_const_tree(tape, ty, depth - 1, refs, avoid_div_zero);
            let mut b = gen_const_tree(tape, ty, depth - 1, refs, avoid_div_zero);
            if (op == "/" || op == "%") && ty == Ty::Int {
                // keep the divisor a non-zero literal most of the time; a zero divisor must be diagnosed
                let allow_zero = !avoid_div_zero && tape.chance(1, 16);
                b = if allow_zero { Expr::LitI(0) } else { Expr::LitI(*tape.pick(NZ_INT)) };
            }
            Expr::Bin(op.into(), Box::new(a), Box::new(b))
        }
        6 => {
            if ty == Ty::Int {
                let op = *tape.pick(&["|", "^", "&", "<<", ">>", ">>>", "==", "!=", "<", "<=", ">", ">="]);
                let oty = if is_compare(op) && tape.bool() { Ty::Float } else { Ty::Int };
                let a = gen_const_tree(tape, oty, depth - 1, refs, avoid_div_zero);
                let b = gen_const_tree(tape, oty, depth - 1, refs, avoid_div_zero);
                Expr::Bin(op.into(), Box::new(a), Box::new(b))
            } else {
                let op = *tape.pick(&["sin", "cos", "sqrt", "atan"]);
                let a = gen_const_tree(tape, Ty::Float, depth - 1, refs, avoid_div_zero);
                Expr::Un(op.into(), Box::new(a))
            }
        }
        7 => {
            let op = if ty == Ty::Int { *tape.pick(&["-", "~", "!"]) } else { "-" };
            let a = gen_const_tree(tape, ty, depth - 1, refs, avoid_div_zero);
            Expr::Un(op.into(), Box::new(a))
        }
        8 => {
            // cast from the other type
            let op = if ty == Ty::Int { "int" } else { "float" };
            let a = gen_const_tree(tape, ty.other(), depth - 1, refs, avoid_div_zero);
            Expr::Un(op.into(), Box::new(a))
        }
        _ => {
            let c = gen_const_tree(tape, Ty::Int, depth - 1, refs, avoid_div_zero);
            let a = gen_const_tree(tape, ty, depth - 1, refs, avoid_div_zero);
            let b = gen_const_tree(tape, ty, depth - 1, refs, avoid_div_zero);
            Expr::Ternary(Box::new(c), Box::new(a), Box::new(b))
        }
    }
}

fn frontend(truth: &mut truth::Truth, spec: &LangSpec, text: &str, simplify: bool) -> Result<tx::Compiled, (tx::Stage, String)> {
    let hooks = spec.hooks();
    tx::compile_body(truth, spec, &hooks, text, tx::PipeOpts { const_simplify: simplify, lower: false, debug_info: false, stop_after_typecheck: false }).map_err(|s| (s, tx::diags(truth)))
}

fn check_table(case: &Value, ctx: &mut CheckCtx) -> Outcome {
    ctx.label("table");
    ctx.nontrivial();
    let op = case["op"].as_str().unwrap();
    let is_float = case["ty"] == "float";
    let unary = case["mode"] == "utable";
    let operands: Vec<Val> = if is_float { floats().into_iter().map(Val::F).collect() } else { INTS.iter().map(|x| Val::I(*x)).collect() };
    let lit = |v: Val| match v { Val::I(x) => Expr::LitI(x).print(), Val::F(x) => flit(x) };
    let mut text = String::from("{\n");
    let mut expect: Vec<(String, Val)> = vec![];
    let mut domain_ok_all = vec![];
    if unary {
        for a in &operands {
            let mut ok = true;
            if op == "int" { if let Val::F(f) = a { if !ops::f2i_in_domain(*f) { ok = false; } } }
            let r = match ops::unop(op, *a) { Ok(r) => r, Err(_) => continue };
            let src = format!("{}({})", op, lit(*a));
            text.push_str(&format!("    REG[{}] = {};\n", if r.is_int() { 1011 } else { 1013 }, src));
            expect.push((src, r)); domain_ok_all.push(ok);
        }
    } else {
        for a in &operands { for b in &operands {
            let r = match ops::binop(op, *a, *b) { Ok(r) => r, Err(EvalErr::DivZero) => continue, Err(_) => continue };
            let src = format!("{} {} {}", lit(*a), op, lit(*b));
            text.push_str(&format!("    REG[{}] = {};\n", if r.is_int() { 1011 } else { 1013 }, src));
            expect.push((src, r)); domain_ok_all.push(true);
        } }
    }
    text.push_str("}\n");
    ctx.sub_evals += expect.len() as u64;
    let spec = spec_for_consts();
    tx::with_truth(|truth| {
        let c = match frontend(truth, &spec, &text, true) { Ok(c) => c, Err((stage, d)) => return Outcome::Fail(Failure::new(format!("c11:table:frontend-rejects:{:?}", stage), d.chars().take(1500).collect::<String>())) };
        let got = assignment_values(&c.structured);
        if got.len() != expect.len() { return Outcome::Fail(Failure::new("c11:table:statement-count", format!("{} vs {}", got.len(), expect.len()))); }
        for (i, ((src, want), g)) in expect.iter().zip(got.iter()).enumerate() {
            if !domain_ok_all[i] { continue; }
            let Some(g) = g else { return Outcome::Fail(Failure::new(format!("c11:not-folded:{}", op), format!("`{}` was not folded to a literal", src))); };
            let agree = if ops::is_logic(op) { (g.as_i() != 0) == (want.as_i() != 0) && g.is_int() } else { same_const(*g, *want) };
            if !agree { return Outcome::Fail(Failure::new(format!("c11:fold-differs:{}:{}", op, case["ty"].as_str().unwrap()), format!("`{}` folded to {} but machine semantics give {}", src, g.show(), want.show()))); }
        }
        Outcome::Pass
    })
}

fn check_undefined(case: &Value, ctx: &mut CheckCtx) -> Outcome {
    ctx.label("undefined");
    ctx.nontrivial();
    let spec = spec_for_consts();
    let text = case["text"].as_str().unwrap();
    tx::with_truth(|truth| {
        let hooks = spec.hooks();
        match tx::compile_body(truth, &spec, &hooks, text, tx::PipeOpts::default()) {
            Ok(_) => Outcome::Fail(Failure::new("c11:undefined-value-accepted", format!("a constant expression without a defined value compiled successfully:\n{}", text))),
            Err(_) => { let d = tx::diags(truth); if tx::has_error_diag(&d) { Outcome::Pass } else { Outcome::Fail(Failure::new("c11:undefined-err-without-diagnostic", text.to_string())) } }
        }
    })
}

fn check_tree(case: &Value, ctx: &mut CheckCtx) -> Outcome {
    ctx.label("tree");
    let e = expr_from_json(&case["tree"]);
    let ty = Ty::from_kw(case["ty"].as_str().unwrap());
    let mut dom = true;
    let want = consteval::eval(&e, &Default::default(), &mut dom);
    let text = format!("{{\n    REG[{}] = {};\n}}\n", if ty == Ty::Int { 1011 } else { 1013 }, e.print_top());
    let spec = spec_for_consts();
    if e.depth() >= 2 { ctx.nontrivial(); }
    tx::with_truth(|truth| {
        let r = frontend(truth, &spec, &text, true);
        match (want, r) {
            (Err(EvalErr::DivZero), Ok(_)) => Outcome::Fail(Failure::new("c11:undefined-value-accepted", text.clone())),
            (Err(EvalErr::DivZero), Err((_, d))) => { ctx.label("undefined"); if tx::has_error_diag(&d) { Outcome::Pass } else { Outcome::Fail(Failure::new("c11:undefined-err-without-diagnostic", text.clone())) } }
            (Err(e), _) => Outcome::Discard(format!("generator produced ill-typed tree: {:?}", e)),
            (Ok(_), Err((stage, d))) => Outcome::Fail(Failure::new(format!("c11:tree:frontend-rejects:{:?}", stage), format!("{}\n{}", text, d))),
            (Ok(want), Ok(c)) => {
                if !dom { return Outcome::Discard("float->int cast outside the documented domain".into()); }
                let got = assignment_values(&c.structured);
                match got.get(0) {
                    Some(Some(g)) => {
                        // logical operators are only compared by truthiness; they appear here only under `!` or as conditions
                        if tree_has_logic(&e) { if (g.as_i() != 0) == (want.as_i() != 0) || !g.is_int() { return Outcome::Pass; } }
                        if same_const(*g, want) { Outcome::Pass } else { Outcome::Fail(Failure::new("c11:tree:fold-differs", format!("`{}` folded to {} but machine semantics give {}", e.print_top(), g.show(), want.show()))) }
                    }
                    _ => Outcome::Fail(Failure::new("c11:tree:not-folded", format!("`{}` was not folded to a literal", e.print_top()))),
                }
            }
        }
    })
}

fn tree_has_logic(e: &Expr) -> bool {
    match e { Expr::Bin(op, a, b) => ops::is_logic(op) || tree_has_logic(a) || tree_has_logic(b), Expr::Un(_, a) => tree_has_logic(a), Expr::Ternary(c, a, b) => tree_has_logic(c) || tree_has_logic(a) || tree_has_logic(b), _ => false }
}

fn check_partial(case: &Value, ctx: &mut CheckCtx) -> Outcome {
    ctx.label("partial");
    let spec = LangSpec::from_json(&case["spec"]);
    let text = case["text"].as_str().unwrap();
    let vals = valuations_from_json(&case["valuations"]);
    // run the un-simplified and the simplified form in separate contexts
    let run = |simplify: bool| -> Result<(Vec<tx::VmStop>, String), Outcome> {
        tx::with_truth(|truth| {
            let c = match frontend(truth, &spec, text, simplify) { Ok(c) => c, Err((stage, d)) => {
                if !tx::has_error_diag(&d) { return Err(Outcome::Fail(Failure::new("c11:err-without-diagnostic", format!("{:?}", stage)))); }
                return Err(Outcome::Discard(format!("frontend-error:{:?}", stage))); } };
            let Ok(raw) = tx::to_raw(truth, &c.structured) else { return Err(Outcome::Discard("to_raw".into())); };
            let printed = tx::stringify_block(&c.structured);
            Ok((vals.iter().map(|v| tx::run_vm(truth, &raw, v, 0, 10000)).collect(), printed))
        })
    };
    let (a, before) = match run(false) { Ok(x) => x, Err(o) => return o };
    let (b, after) = match run(true) { Ok(x) => x, Err(o) => return o };
    if before != after { ctx.nontrivial(); ctx.label("partial:simplified"); }
    for (i, (x, y)) in a.iter().zip(b.iter()).enumerate() {
        ctx.sub_evals += 1;
        match (x, y) {
            (tx::VmStop::Done(p), tx::VmStop::Done(q)) => {
                if let Some(d) = super::c06::compare_vm(p, q) { return Outcome::Fail(Failure::new("c11:partial:simplification-changes-behaviour", format!("valuation {}: {}\nbefore: {}\nafter: {}", i, d, before, after))); }
            }
            (tx::VmStop::Panic(_), _) => continue, // source itself not evaluable (e.g. overflowing cast)
            (_, tx::VmStop::Panic(m)) => return Outcome::Fail(Failure::new("c11:partial:simplified-form-panics", m.clone())),
            _ => continue,
        }
    }
    Outcome::Pass
}

fn check_chain(case: &Value, ctx: &mut CheckCtx) -> Outcome {
    ctx.label("chain");
    let defs: Vec<(String, Ty, Expr)> = case["defs"].as_array().unwrap().iter().map(|d| (d["name"].as_str().unwrap().to_string(), Ty::from_kw(d["ty"].as_str().unwrap()), expr_from_json(&d["tree"]))).collect();
    let order: Vec<usize> = case["order"].as_array().unwrap().iter().map(|x| x.as_u64().unwrap() as usize).collect();
    let cycle = case["cycle"] == true;
    if defs.len() >= 2 { ctx.nontrivial(); }
    // reference values by the model: evaluate in dependency order (memoised recursion)
    fn value_of(name: &str, defs: &[(String, Ty, Expr)], memo: &mut BTreeMap<String, Result<Val, EvalErr>>, stack: &mut Vec<String>, dom: &mut bool) -> Result<Val, EvalErr> {
        if let Some(v) = memo.get(name) { return v.clone(); }
        if stack.iter().any(|s| s == name) { return Err(EvalErr::TypeError("cycle".into())); }
        let Some((_, ty, e)) = defs.iter().find(|d| d.0 == name) else { return Err(EvalErr::TypeError("unknown".into())); };
        stack.push(name.to_string());
        // evaluate references first
        let mut env = consteval::Env::new();
        let mut names = vec![];
        e.visit_vars(&mut |v| if let VarRef::Local { name, .. } = &v.var { names.push(name.clone()); });
        let mut err = None;
        for n in names { match value_of(&n, defs, memo, stack, dom) { Ok(v) => { env.insert(n, v); } Err(e) => { err = Some(e); break; } } }
        stack.pop();
        let r = match err { Some(e) => Err(e), None => consteval::eval(e, &env, dom).map(|v| consteval::cast(v, *ty)) };
        memo.insert(name.to_string(), r.clone());
        r
    }
    let mut memo = BTreeMap::new();
    let mut dom = true;
    let mut any_err: Option<EvalErr> = None;
    for (n, _, _) in &defs { if let Err(e) = value_of(n, &defs, &mut memo, &mut vec![], &mut dom) { any_err = Some(e); } }
    // does the declared type match the expression type?  (generator guarantees it; references carry sigils)
    let mut text = String::from("{\n");
    for i in &order { let (n, t, e) = &defs[*i]; text.push_str(&format!("    const {} {} = {};\n", t.kw(), n, e.print_top())); }
    let uses: Vec<String> = defs.iter().map(|(n, t, _)| format!("    ins_{}({});\n", if *t == Ty::Int { 200 } else { 201 }, n)).collect();
    let named = format!("{}{}}}\n", text, uses.concat());
    let spec = spec_for_consts();
    let hooks = spec.hooks();
    let named_res = tx::with_truth(|truth| {
        let r = tx::compile_body(truth, &spec, &hooks, &named, tx::PipeOpts::default());
        let d = tx::diags(truth);
        let consts: Vec<(String, Value)> = { let c = truth.ctx(); c.consts.debug_info(&c.defs) }.into_iter().map(|c| (c.name.clone(), serde_json::to_value(&c.value).unwrap())).collect();
        (r.map(|c| tx::to_minstrs(&c.instrs)).map_err(|s| s), d, consts)
    });
    match (&any_err, &named_res.0) {
        (Some(EvalErr::TypeError(m)), Ok(_)) if m == "cycle" => return Outcome::Fail(Failure::new("c11:chain:cycle-accepted", named.clone())),
        (Some(EvalErr::DivZero), Ok(_)) => return Outcome::Fail(Failure::new("c11:undefined-value-accepted", named.clone())),
        (Some(e), Err(_)) => { if matches!(e, EvalErr::TypeError(m) if m == "cycle") { ctx.label("cycle"); } else { ctx.label("undefined"); } return if tx::has_error_diag(&named_res.1) { Outcome::Pass } else { Outcome::Fail(Failure::new("c11:chain:err-without-diagnostic", named.clone())) }; }
        (Some(e), Ok(_)) => return Outcome::Discard(format!("model error {:?}", e)),
        (None, Err(stage)) => return Outcome::Fail(Failure::new(format!("c11:chain:frontend-rejects:{:?}", stage), format!("{}\n{}", named, named_res.1))),
        (None, Ok(_)) => {}
    }
    let _ = cycle;
    if !dom { return Outcome::Discard("float->int cast outside the documented domain".into()); }
    // inline form: each use replaced by the literal value computed by the model
    let mut inline = String::from("{\n");
    for (n, t, _) in &defs {
        let v = memo[n].clone().unwrap();
        let lit = match v { Val::I(x) => Expr::LitI(x).print_top(), Val::F(x) => if x.is_finite() { Expr::LitF(x).print_top() } else if x.is_nan() { "NAN".into() } else if x > 0.0 { "INF".into() } else { "-INF".into() } };
        inline.push_str(&format!("    ins_{}({});\n", if *t == Ty::Int { 200 } else { 201 }, lit));
    }
    inline.push_str("}\n");
    let inline_res = tx::with_truth(|truth| tx::compile_body(truth, &spec, &hooks, &inline, tx::PipeOpts::default()).map(|c| tx::to_minstrs(&c.instrs)).map_err(|s| (s, tx::diags(truth))));
    let a = named_res.0.unwrap();
    let b = match inline_res { Ok(b) => b, Err((s, d)) => return Outcome::Discard(format!("inline form rejected {:?} {}", s, d.chars().take(80).collect::<String>())) };
    // NaN payloads may differ between literal spellings; compare bytes unless a NaN is involved
    let involves_nan = memo.values().any(|v| matches!(v, Ok(Val::F(x)) if x.is_nan()));
    if a != b && !involves_nan {
        return Outcome::Fail(Failure::new("c11:chain:named-vs-inline-differ", format!("named:\n{}{}\ninline:\n{}{}", named, super::c02::dump(&a), inline, super::c02::dump(&b))));
    }
    // debug-info const values
    for (n, _, _) in &defs {
        let want = memo[n].clone().unwrap();
        if let Some((_, v)) = named_res.2.iter().find(|(cn, _)| cn == n) {
            let got = if let Some(i) = v.get("int") { Some(Val::I(i.as_i64().unwrap() as i32)) } else if let Some(f) = v.get("float") { f.as_f64().map(|x| Val::F(x as f32)) } else { None };
            if let Some(got) = got { if !same_const(got, want) && !matches!(want, Val::F(x) if !x.is_finite()) { return Outcome::Fail(Failure::new("c11:chain:debug-info-const-value", format!("const {}: debug info says {} but the model gives {}\n{}", n, got.show(), want.show(), named))); } }
        }
    }
    Outcome::Pass
}

pub fn expr_to_json_ds(e: &Expr) -> Value {
    match e { Expr::DiffSwitch(cs) => json!({"ds": cs.iter().map(|c| match c { Some(x) => expr_to_json_ds(x), None => Value::Null }).collect::<Vec<_>>()}), e => expr_to_json(e) }
}
pub fn expr_from_json_ds(v: &Value) -> Expr {
    if let Some(cs) = v.get("ds") { return Expr::DiffSwitch(cs.as_array().unwrap().iter().map(|c| if c.is_null() { None } else { Some(expr_from_json_ds(c)) }).collect()); }
    expr_from_json(v)
}
