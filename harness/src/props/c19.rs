//! C19 — output is a deterministic function of the inputs (fresh processes of the real CLI).
use serde_json::{json, Value};
use std::process::Command;
use crate::engine::*;
use crate::files::Fmt;
use crate::gen::files::*;
use crate::props::c01::pick_fmt;
use crate::props::c04::{C04, materialize};

pub struct C19;

fn cli() -> Option<String> { std::env::var("TV_TRUTH_CORE").ok().filter(|p| std::path::Path::new(p).exists()) }

fn tool(fmt: Fmt) -> (&'static str, Vec<&'static str>) {
    match fmt { Fmt::Anm => ("truanm", vec![]), Fmt::Std => ("trustd", vec![]), Fmt::Msg => ("trumsg", vec![]), Fmt::End => ("trumsg", vec!["--ending"]), Fmt::Mission => ("trumsg", vec!["--mission"]), Fmt::Ecl => ("truecl", vec![]) }
}
fn game_num(game: &str) -> String { game.trim_start_matches("th").to_string() }

struct Run { code: Option<i32>, stdout: Vec<u8>, stderr: Vec<u8>, out_file: Option<Vec<u8>>, dbg_file: Option<Vec<u8>> }

fn run(bin: &str, dir: &std::path::Path, args: &[String], out_name: Option<&str>, dbg_name: Option<&str>) -> Run {
    if let Some(n) = out_name { let _ = std::fs::remove_file(dir.join(n)); }
    if let Some(n) = dbg_name { let _ = std::fs::remove_file(dir.join(n)); }
    let o = Command::new(bin).args(args).current_dir(dir).env("RUST_BACKTRACE", "0").env_remove("TRUTH_MAP_PATH").output();
    match o {
        Ok(o) => Run { code: o.status.code(), stdout: o.stdout, stderr: o.stderr, out_file: out_name.and_then(|n| std::fs::read(dir.join(n)).ok()), dbg_file: dbg_name.and_then(|n| std::fs::read(dir.join(n)).ok()) },
        Err(e) => Run { code: None, stdout: vec![], stderr: format!("spawn failed: {}", e).into_bytes(), out_file: None, dbg_file: None },
    }
}

fn first_diff(a: &[u8], b: &[u8]) -> String {
    let (sa, sb) = (String::from_utf8_lossy(a), String::from_utf8_lossy(b));
    let i = sa.lines().zip(sb.lines()).position(|(x, y)| x != y).unwrap_or(sa.lines().count().min(sb.lines().count()));
    format!("first differing line {}:\n  run 1: {}\n  run k: {}", i + 1, sa.lines().nth(i).unwrap_or("<end>"), sb.lines().nth(i).unwrap_or("<end>"))
}

/// What one in-process run of compile (+ decompile of the result) produced; every field must be a function of the inputs.
#[derive(PartialEq, Eq, Clone, Debug)]
struct InProc { compile_stage: String, compile_diags: String, bytes: Option<Vec<u8>>, debug_info: Option<String>, decompiled: Vec<(String, String, String)> }

/// Runs on a FRESH thread: std's `RandomState` draws its keys per thread from the OS, so every call sees hash maps
/// seeded differently, exactly like a fresh process does.  Returns Err on a panic (C04's / C16's subject).
fn run_in_fresh_thread(fmt: Fmt, game: String, text: Vec<u8>, maps: Vec<Vec<u8>>, tag: usize) -> Result<(InProc, Vec<u64>), String> {
    let h = std::thread::Builder::new().stack_size(8 << 20).spawn(move || {
        // fingerprint of this thread's hash seeds: iteration order of a std HashSet
        let hs: std::collections::HashSet<u64> = (0..48u64).collect();
        let order: Vec<u64> = hs.iter().copied().collect();
        let g = crate::files::game_from_str(&game);
        let dir = std::path::PathBuf::from({ let _ = tag; format!("/dev/shm/tv-c19t-{}", std::process::id()) });
        if !maps.is_empty() { let _ = std::fs::create_dir_all(&dir); }
        let mut paths = vec![];
        for (i, m) in maps.iter().enumerate() { let p = dir.join(format!("map{}.txt", i)); let _ = std::fs::write(&p, m); paths.push(p); }
        let r = catch(|| {
            let (stage, diags, compiled) = crate::tx::with_truth(|truth| {
                let r = crate::files::compile_file_ex(truth, fmt, g, &text, &[], &paths, vec![]);
                let d = crate::tx::diags(truth);
                match r { Ok(c) => ("ok".to_string(), d, Some((c.bytes, c.debug_info_text))), Err(s) => (format!("{:?}", s), d, None) }
            });
            let mut dec = vec![];
            if let Some((bytes, _)) = &compiled {
                let map_texts: Vec<String> = maps.iter().map(|m| String::from_utf8_lossy(m).into_owned()).collect();
                for (oname, opts) in [("default", truth::DecompileOptions::new()), ("no-blocks-no-intrinsics", { let mut o = truth::DecompileOptions::new(); o.blocks = false; o.intrinsics = false; o })] {
                    let (res, d) = crate::tx::with_truth(|truth| {
                        let r = crate::files::decompile_file(truth, fmt, g, bytes, &opts, &map_texts);
                        let out = match r { Ok(ast) => crate::tx::format_at(&ast, 100).unwrap_or_else(|e| format!("<format error: {}>", e)), Err(s) => format!("<{:?}>", s) };
                        (out, crate::tx::diags(truth))
                    });
                    dec.push((oname.to_string(), res, d));
                }
            }
            InProc { compile_stage: stage, compile_diags: diags, bytes: compiled.as_ref().map(|c| c.0.clone()), debug_info: compiled.map(|c| c.1), decompiled: dec }
        });
        if !maps.is_empty() { let _ = std::fs::remove_dir_all(&dir); }
        r.map(|x| (x, order)).map_err(|p| p.signature())
    });
    match h { Ok(h) => h.join().unwrap_or_else(|_| Err("thread panicked outside catch".into())), Err(e) => Err(format!("spawn failed: {}", e)) }
}

fn check_threads(case: &Value, ctx: &mut CheckCtx) -> Outcome {
    let Some((fmt, game, text, maps)) = materialize(case) else { return Outcome::Discard("case cannot be materialised".into()) };
    ctx.label(format!("fmt:{}", fmt.name())); ctx.label("mode:threads");
    if case["competing"] == true { ctx.label("competing"); }
    if !maps.is_empty() { ctx.label("mapfile"); }
    const RUNS: usize = 4;
    let mut first: Option<(InProc, Vec<u64>)> = None;
    for k in 0..RUNS {
        let r = match run_in_fresh_thread(fmt, game.clone(), text.clone(), maps.clone(), k) { Ok(r) => r, Err(sig) => return Outcome::Discard(format!("panic (C04's subject): {}", sig.chars().take(60).collect::<String>())) };
        let Some((f, forder)) = &first else {
            let ndiag = r.0.compile_diags.lines().filter(|l| l.starts_with("error") || l.starts_with("warning")).count() + r.0.decompiled.iter().map(|d| d.2.lines().filter(|l| l.starts_with("error") || l.starts_with("warning")).count()).sum::<usize>();
            if ndiag >= 1 || r.0.bytes.is_some() { ctx.nontrivial(); }
            if ndiag >= 2 { ctx.label("diagnostics:>=2"); }
            ctx.label(if r.0.bytes.is_some() { "compile:ok" } else { "compile:failed" });
            if r.0.debug_info.is_some() { ctx.label("debug-info-compared"); }
            if !r.0.decompiled.is_empty() { ctx.label("decompile-compared"); }
            first = Some(r); continue;
        };
        if *forder != r.1 { ctx.label("threads:hash-seeds-differ"); }
        if *f == r.0 { continue; }
        let fail = |what: &str, detail: String| Outcome::Fail(Failure::new(format!("c19:threads:{}:{}", what, fmt.name()), format!("game {}: the same in-process command run on two fresh threads (fresh hash seeds) gave different results: {}\n--- input:\n{}\n--- mapfiles:\n{}", game, detail, String::from_utf8_lossy(&text).chars().take(2500).collect::<String>(), maps.iter().map(|m| String::from_utf8_lossy(m).chars().take(1500).collect::<String>()).collect::<Vec<_>>().join("\n---\n"))));
        if f.compile_stage != r.0.compile_stage { return fail("exit-status", format!("compile ended at {} vs {}", f.compile_stage, r.0.compile_stage)); }
        if f.compile_diags != r.0.compile_diags { return fail("compile-diagnostics", first_diff(f.compile_diags.as_bytes(), r.0.compile_diags.as_bytes())); }
        if f.bytes != r.0.bytes { return fail("output-file", "the written files differ".into()); }
        if f.debug_info != r.0.debug_info { return fail("debug-info", first_diff(f.debug_info.clone().unwrap_or_default().as_bytes(), r.0.debug_info.clone().unwrap_or_default().as_bytes())); }
        for (a, b) in f.decompiled.iter().zip(r.0.decompiled.iter()) {
            if a.1 != b.1 { return fail("decompiled-text", format!("options {}: {}", a.0, first_diff(a.1.as_bytes(), b.1.as_bytes()))); }
            if a.2 != b.2 { return fail("decompile-diagnostics", format!("options {}: {}", a.0, first_diff(a.2.as_bytes(), b.2.as_bytes()))); }
        }
        return fail("other", "results differ".into());
    }
    Outcome::Pass
}

impl Property for C19 {
    fn id(&self) -> &'static str { "C19" }
    fn rule(&self) -> &'static str {
        "inputs = the generated sources, mutated sources and mutated mapfiles of C04 (most of which produce one or more warnings / errors) and the valid generated sources of C01; each command (compile with --output-debug-info, then decompile of the produced file (with the mapfile, if any)) is run 3 times as a fresh process of the real truth-core binary built from the current tree: exit status, stdout, stderr, output file and debug-info file must be byte-identical across the runs. non-trivial = the command printed at least one diagnostic, or produced an output file that was then decompiled"
    }
    fn tape_len(&self, tier: Tier) -> usize { tier.pick(300, 500) }
    fn cases(&self, tier: Tier) -> u32 { tier.pick(10_000, 120_000) }
    fn required_labels(&self, _tier: Tier) -> Vec<&'static str> { vec!["mode:cli", "mode:threads", "threads:hash-seeds-differ", "compile:ok", "compile:failed", "diagnostics:>=2", "competing", "decompile-compared", "debug-info-compared", "mapfile", "fmt:anm", "fmt:std", "fmt:msg", "fmt:ecl"] }
    fn max_discard_fraction(&self) -> f64 { 0.05 }

    fn generate(&self, tape: &mut Tape, tier: Tier, known: &Known) -> Value {
        // most cases run in-process on fresh threads (cheap); one in 25 launches the real CLI in fresh processes
        let mode = if tape.chance(1, 25) { "cli" } else { "threads" };
        let mut v = self.generate_input(tape, tier, known);
        v["mode"] = json!(mode);
        v
    }
    fn check(&self, case: &Value, ctx: &mut CheckCtx) -> Outcome { self.check_impl(case, ctx) }
}

/// A mapfile with several entries competing for each kind of diagnostic (undefined enums, near-miss enum names with
/// equally close candidates, the same name given to several opcodes / registers, unknown sections, conflicting enum values)
/// plus a source that trips over several of them.
fn competing_case(tape: &mut Tape) -> Value {
    let fmt = *tape.pick(&[Fmt::Anm, Fmt::Msg, Fmt::Std, Fmt::Ecl]);
    let game = *tape.pick(games_for(fmt));
    let magic = match fmt { Fmt::Anm => "!anmmap", Fmt::Std => "!stdmap", Fmt::Msg => "!msgmap", _ => "!eclmap" };
    let mut m = format!("{}\n", magic);
    let n_enums = 2 + tape.below(4);
    let names: Vec<String> = (0..n_enums).map(|i| format!("{}{}", *tape.pick(&["color", "colour", "kind", "colorA", "colorB", "Kind"]), if tape.bool() { i.to_string() } else { String::new() })).collect();
    for (i, n) in names.iter().enumerate() {
        if tape.chance(3, 4) { m.push_str(&format!("!enum(name=\"{}\")\n", n)); for k in 0..(1 + tape.below(3)) { m.push_str(&format!("{} {}\n", k + i, *tape.pick(&["Red", "Blue", "Green", "red", "Rod"]))); } }
    }
    m.push_str("!ins_signatures\n");
    let nsig = 2 + tape.below(6);
    for k in 0..nsig {
        let e = match tape.below(4) { 0 => names[tape.below(names.len())].clone(), 1 => format!("{}x", names[tape.below(names.len())]), 2 => format!("nope{}", tape.below(4)), _ => "colorC".to_string() };
        m.push_str(&format!("{} {}(enum=\"{}\"){}\n", 900 + k, *tape.pick(&["S", "s", "b", "U"]), e, if tape.chance(1, 4) { "S(enum=\"nope9\")" } else { "" }));
    }
    if tape.bool() { m.push_str("!ins_names\n"); for k in 0..(2 + tape.below(4)) { m.push_str(&format!("{} {}\n", 900 + k, *tape.pick(&["dupname", "other", "dupname2", "ins_5"]))); } }
    if tape.bool() { m.push_str("!gvar_names\n"); for k in 0..(2 + tape.below(4)) { m.push_str(&format!("{} {}\n", 10000 + k, *tape.pick(&["dupreg", "R", "dupreg2"]))); } m.push_str("!gvar_types\n"); for k in 0..4 { m.push_str(&format!("{} {}\n", 10000 + k, if tape.bool() { "$" } else { "%" })); } }
    for _ in 0..tape.below(4) { m.push_str(&format!("!{}\n1 x\n", *tape.pick(&["ins_comments", "ins_notes", "nonsense", "gvar_comments", "ins_rets"]))); }
    if tape.chance(1, 3) { m.push_str("!difficulty_flags\n0 E\n1 N\n2 H-\n3 L+\n4 X+\n"); }
    let sub = tape.fork(120);
    let mut st = Tape::new(&sub);
    let f = gen_file(&mut st, fmt, game, 4);
    // a few statements that use the competing names
    let mut extra = String::new();
    for _ in 0..tape.below(5) { extra.push_str(*tape.pick(&["    ins_900(Red);\n", "    ins_901(Blue);\n", "    dupname(1);\n", "    ins_902(colorA.Red);\n", "    ins_903(Rid);\n", "    dupreg = 1;\n", "    $R = $dupreg2;\n", "    ins_900(nope.Red);\n", "unusedlabel:\n", "unusedlabel2:\n"])); }
    let text = match f.text.rfind('}') { Some(p) => format!("{}{}{}", &f.text[..p], extra, &f.text[p..]), None => f.text.clone() };
    json!({"kind": "mapfile", "fmt": fmt.name(), "game": game, "map": m, "mutations": [], "text": text, "competing": true})
}

impl C19 {
    fn generate_input(&self, tape: &mut Tape, tier: Tier, known: &Known) -> Value {
        if tape.chance(1, 5) { return competing_case(tape); }
        if tape.chance(1, 3) {
            let fmt = pick_fmt(tape);
            let game = if fmt == Fmt::Ecl && tape.chance(1, 3) { *tape.pick(MODERN_ECL_GAMES) } else { *tape.pick(games_for(fmt)) };
            let f = gen_file(tape, fmt, game, tier.pick(8, 16));
            // an MSG file with unused scripts: several warnings whose order must be stable
            let extra = if matches!(fmt, Fmt::Msg | Fmt::End) && tape.chance(1, 2) { (0..(2 + tape.below(5))).map(|i| format!("script unused{} {{\n}}\n\n", i)).collect::<String>() } else { String::new() };
            return json!({"kind": "source", "base": "valid", "fmt": fmt.name(), "game": game, "tool_fmt": fmt.name(), "tool_game": game, "text": format!("{}{}", f.text, extra), "mutations": []});
        }
        if tape.chance(1, 8) {
            // pre-TH10 ECL subs whose parameters are also used through their raw registers, or locals that need scratch
            // registers next to explicit ones: several independent warnings / notes per sub
            let game = *tape.pick(&["th07", "th08", "th09", "th095"]);
            let base = match game { "th07" => 10029, "th095" => 10036, _ => 10053 };
            let nsubs = 1 + tape.below(3);
            let mut text = String::from("script timeline0 {\n}\n\n");
            for i in 0..nsubs {
                let ni = 1 + tape.below(4); let nf = tape.below(5);
                let params: Vec<String> = (0..ni).map(|k| format!("int a{}", k)).chain((0..nf).map(|k| format!("float f{}", k))).collect();
                let mut body = String::new();
                for k in 0..ni { if tape.chance(2, 3) { body.push_str(&format!("    $REG[{}] = {};\n", base + k as i32, k)); } }
                for k in 0..nf { if tape.chance(2, 3) { body.push_str(&format!("    %REG[{}] = {}.0;\n", base + 4 + k as i32, k)); } }
                text.push_str(&format!("void Sub{}({}) {{\n{}}}\n\n", i, params.join(", "), body));
            }
            return json!({"kind": "source", "base": "valid", "fmt": "ecl", "game": game, "tool_fmt": "ecl", "tool_game": game, "text": text, "mutations": []});
        }
        C04.generate(tape, tier, known)
    }

    fn check_impl(&self, case: &Value, ctx: &mut CheckCtx) -> Outcome {
        if case["mode"] == "threads" { return check_threads(case, ctx); }
        ctx.label("mode:cli");
        if case["competing"] == true { ctx.label("competing"); }
        let Some(bin) = cli() else { return Outcome::Discard("TV_TRUTH_CORE is not set (the driver builds the CLI and sets it)".into()) };
        let Some((fmt, game, text, maps)) = materialize(case) else { return Outcome::Discard("case cannot be materialised".into()) };
        ctx.label(format!("fmt:{}", fmt.name()));
        let dir = std::path::PathBuf::from(format!("/dev/shm/tv-c19-{}", std::process::id()));
        let _ = std::fs::create_dir_all(&dir);
        let _ = std::fs::write(dir.join("in.spec"), &text);
        let mut map_args: Vec<String> = vec![];
        for (i, m) in maps.iter().enumerate() { let n = format!("map{}.txt", i); let _ = std::fs::write(dir.join(&n), m); map_args.push("-m".into()); map_args.push(n); ctx.label("mapfile"); }
        let (t, extra) = tool(fmt);
        let mut args: Vec<String> = vec![t.into(), "compile".into(), "in.spec".into(), "-g".into(), game_num(&game), "-o".into(), "out.bin".into(), "--output-debug-info".into(), "dbg.json".into()];
        args.extend(extra.iter().map(|s| s.to_string())); args.extend(map_args.clone());
        const RUNS: usize = 3;
        let fail = |what: &str, detail: String| Outcome::Fail(Failure::new(format!("c19:{}:{}", what, fmt.name()), format!("game {}: {}\n--- command: truth-core {}\n--- input:\n{}", game, detail, args.join(" "), String::from_utf8_lossy(&text).chars().take(2500).collect::<String>())));
        let first = run(&bin, &dir, &args, Some("out.bin"), Some("dbg.json"));
        if first.code.is_none() { let _ = std::fs::remove_dir_all(&dir); return Outcome::Discard(format!("the CLI did not exit normally (C04's subject): {}", String::from_utf8_lossy(&first.stderr).chars().take(60).collect::<String>())); }
        let ndiag = String::from_utf8_lossy(&first.stderr).lines().filter(|l| l.starts_with("error") || l.starts_with("warning")).count();
        if ndiag >= 1 { ctx.nontrivial(); }
        if ndiag >= 2 { ctx.label("diagnostics:>=2"); }
        ctx.label(if first.code == Some(0) { "compile:ok" } else { "compile:failed" });
        for k in 1..RUNS {
            let r = run(&bin, &dir, &args, Some("out.bin"), Some("dbg.json"));
            if r.code != first.code { let _ = std::fs::remove_dir_all(&dir); return fail("exit-status", format!("run 1 exited with {:?}, run {} with {:?}", first.code, k + 1, r.code)); }
            if r.stderr != first.stderr { let _ = std::fs::remove_dir_all(&dir); return fail("compile-diagnostics", first_diff(&first.stderr, &r.stderr)); }
            if r.stdout != first.stdout { let _ = std::fs::remove_dir_all(&dir); return fail("compile-stdout", first_diff(&first.stdout, &r.stdout)); }
            if r.out_file != first.out_file { let _ = std::fs::remove_dir_all(&dir); return fail("output-file", format!("the output files of run 1 and run {} differ ({:?} vs {:?} bytes)", k + 1, first.out_file.as_ref().map(|b| b.len()), r.out_file.as_ref().map(|b| b.len()))); }
            if r.dbg_file != first.dbg_file { let _ = std::fs::remove_dir_all(&dir); return fail("debug-info", first_diff(first.dbg_file.as_deref().unwrap_or(b""), r.dbg_file.as_deref().unwrap_or(b""))); }
        }
        if first.dbg_file.is_some() { ctx.label("debug-info-compared"); }
        // decompile what was produced
        if let Some(out) = &first.out_file {
            let _ = std::fs::write(dir.join("dec.bin"), out);
            for with_map in [!maps.is_empty()] {
                let mut dargs: Vec<String> = vec![t.into(), "decompile".into(), "dec.bin".into(), "-g".into(), game_num(&game)];
                dargs.extend(extra.iter().map(|s| s.to_string()));
                if with_map { dargs.extend(map_args.clone()); }
                let d1 = run(&bin, &dir, &dargs, None, None);
                ctx.label("decompile-compared"); ctx.nontrivial();
                for k in 1..RUNS {
                    let r = run(&bin, &dir, &dargs, None, None);
                    if r.code != d1.code { let _ = std::fs::remove_dir_all(&dir); return fail("decompile-exit-status", format!("{:?} vs {:?}", d1.code, r.code)); }
                    if r.stdout != d1.stdout { let _ = std::fs::remove_dir_all(&dir); return fail("decompiled-text", format!("run 1 vs run {}: {}", k + 1, first_diff(&d1.stdout, &r.stdout))); }
                    if r.stderr != d1.stderr { let _ = std::fs::remove_dir_all(&dir); return fail("decompile-diagnostics", first_diff(&d1.stderr, &r.stderr)); }
                }
            }
        }
        let _ = std::fs::remove_dir_all(&dir);
        Outcome::Pass
    }
}
