//! Engine: choice tape, proptest runner wrapper, panic capture, shard protocol, replay.
use std::collections::BTreeMap;
use std::collections::BTreeSet;
use std::sync::atomic::{AtomicU64, AtomicUsize, Ordering};
use std::cell::RefCell;

use serde_json::{json, Value};
use proptest::test_runner::{Config, RngSeed, TestCaseError, TestError, TestRunner};
use proptest::prelude::*;

// =============================================================================
// Tier

#[derive(Copy, Clone, Debug, PartialEq, Eq)]
pub enum Tier { Quick, Thorough }

impl Tier {
    pub fn parse(s: &str) -> Tier { if s == "thorough" { Tier::Thorough } else { Tier::Quick } }
    pub fn name(self) -> &'static str { match self { Tier::Quick => "quick", Tier::Thorough => "thorough" } }
    pub fn pick<T>(self, q: T, t: T) -> T { match self { Tier::Quick => q, Tier::Thorough => t } }
}

// =============================================================================
// Choice tape

/// A finite tape of random choices.  When the tape runs out every choice is 0, which generators
/// must treat as "the simplest alternative".
pub struct Tape<'a> { data: &'a [u32], pos: usize }

impl<'a> Tape<'a> {
    pub fn new(data: &'a [u32]) -> Self { Tape { data, pos: 0 } }
    pub fn raw(&mut self) -> u32 { let v = self.data.get(self.pos).copied().unwrap_or(0); self.pos += 1; v }
    pub fn exhausted(&self) -> bool { self.pos >= self.data.len() }
    pub fn remaining(&self) -> usize { self.data.len().saturating_sub(self.pos) }
    /// uniform in 0..n, monotone in the tape value (so that shrinking the value shrinks the choice)
    pub fn below(&mut self, n: usize) -> usize {
        if n <= 1 { let _ = self.raw(); return 0; }
        ((self.raw() as u64 * n as u64) >> 32) as usize
    }
    /// inclusive range
    pub fn range(&mut self, lo: i64, hi: i64) -> i64 {
        debug_assert!(lo <= hi);
        lo + self.below((hi - lo + 1) as usize) as i64
    }
    pub fn bool(&mut self) -> bool { self.below(2) == 1 }
    /// true with probability num/den; false when the tape is exhausted.
    pub fn chance(&mut self, num: u32, den: u32) -> bool {
        let v = self.below(den as usize) as u32;
        v >= den - num
    }
    pub fn pick<'b, T>(&mut self, items: &'b [T]) -> &'b T { &items[self.below(items.len())] }
    pub fn i32_any(&mut self) -> i32 { self.raw() as i32 }
    /// Draw one value and expand it deterministically into `n` pseudo-random choices (all zero for seed 0):
    /// lets bulky, low-interest data (register valuations) cost a single tape cell.
    pub fn fork(&mut self, n: usize) -> Vec<u32> {
        let seed = self.raw();
        if seed == 0 { return vec![0; n]; }
        let mut x = (seed as u64).wrapping_mul(0x9E3779B97F4A7C15) | 1;
        (0..n).map(|_| { x ^= x << 13; x ^= x >> 7; x ^= x << 17; (x >> 20) as u32 }).collect()
    }
}

// =============================================================================
// Outcomes

#[derive(Debug, Clone)]
pub struct Failure { pub signature: String, pub message: String }

impl Failure {
    pub fn new(signature: impl Into<String>, message: impl Into<String>) -> Failure {
        Failure { signature: signature.into(), message: message.into() }
    }
}

#[derive(Debug, Clone)]
pub enum Outcome { Pass, Discard(String), Fail(Failure) }

pub struct CheckCtx<'k> {
    pub labels: Vec<String>,
    pub nontrivial: bool,
    /// number of independent sub-evaluations performed by this case (valuations, widths, ...)
    pub sub_evals: u64,
    pub known: &'k Known,
    pub strict: bool,
    /// sub-failures that matched a known finding (tolerated in non-strict mode)
    pub known_hits: Vec<String>,
}

impl<'k> CheckCtx<'k> {
    pub fn new(known: &'k Known, strict: bool) -> Self {
        CheckCtx { labels: vec![], nontrivial: false, sub_evals: 0, known, strict, known_hits: vec![] }
    }
    pub fn label(&mut self, s: impl Into<String>) { let s = s.into(); if !self.labels.contains(&s) { self.labels.push(s); } }
    pub fn nontrivial(&mut self) { self.nontrivial = true; }
    /// If `f` is a tolerated known finding, record it and return None.
    pub fn tolerate(&mut self, f: Failure) -> Option<Failure> {
        if !self.strict && self.known.matches(&f.signature) { self.known_hits.push(f.signature); None } else { Some(f) }
    }
}

// =============================================================================
// Known findings

#[derive(Default, Debug, Clone)]
pub struct Known {
    /// (name, signature-prefix) for status == known, this property only
    pub entries: Vec<(String, String)>,
}

impl Known {
    pub fn load(path: Option<&str>, property: &str) -> Known {
        let mut k = Known::default();
        let Some(path) = path else { return k };
        let Ok(text) = std::fs::read_to_string(path) else { return k };
        let Ok(v) = serde_json::from_str::<Value>(&text) else { return k };
        for e in v["findings"].as_array().cloned().unwrap_or_default() {
            if e["status"] == "known" && e["property"] == property {
                k.entries.push((e["name"].as_str().unwrap_or("").to_string(), e["signature"].as_str().unwrap_or("\u{0}").to_string()));
            }
        }
        k
    }
    pub fn matches(&self, signature: &str) -> bool {
        self.entries.iter().any(|(_, s)| signature.starts_with(s.as_str()))
    }
    /// Is there a known (unfixed) finding of this name?  Generators use this to exclude its shape.
    pub fn has(&self, name: &str) -> bool { self.entries.iter().any(|(n, _)| n == name) }
}

// =============================================================================
// Property trait

pub trait Property: Sync {
    fn id(&self) -> &'static str;
    fn rule(&self) -> &'static str;
    fn tape_len(&self, tier: Tier) -> usize;
    fn cases(&self, tier: Tier) -> u32;
    /// Deterministic cases (exhaustive sweeps, bundled files...) run before the random search; split over shards by index.
    fn fixed_cases(&self, _tier: Tier, _known: &Known) -> Vec<Value> { vec![] }
    fn generate(&self, tape: &mut Tape, tier: Tier, known: &Known) -> Value;
    fn check(&self, case: &Value, ctx: &mut CheckCtx) -> Outcome;
    /// labels that must be seen at least once in a run, else the run is degenerate
    fn required_labels(&self, _tier: Tier) -> Vec<&'static str> { vec![] }
    fn max_discard_fraction(&self) -> f64 { 0.30 }
}

// =============================================================================
// Panic capture

#[derive(Debug, Clone)]
pub struct PanicInfo { pub file: String, pub line: u32, pub message: String }

impl PanicInfo {
    pub fn signature(&self) -> String {
        let msg: String = self.message.lines().next().unwrap_or("").chars().take(60).collect();
        // strip digits so that values in messages do not unkey a finding
        let msg: String = msg.chars().map(|c| if c.is_ascii_digit() { '#' } else { c }).collect();
        // ... and quoted names
        let msg = { let mut out = String::new(); let mut inq = false; for c in msg.chars() { if c == '\'' { inq = !inq; out.push(c); if inq { out.push('_'); } } else if !inq { out.push(c); } } out };
        format!("panic:{}:{}:L{}", self.file, msg, self.line)
    }
    pub fn to_failure(&self, prefix: &str) -> Failure {
        Failure::new(format!("{}{}", prefix, self.signature()), format!("panic at {}:{}: {}", self.file, self.line, self.message))
    }
}

thread_local! {
    static LAST_PANIC: RefCell<Option<PanicInfo>> = RefCell::new(None);
}

pub fn install_panic_hook() {
    std::panic::set_hook(Box::new(|info| {
        let (file, line) = info.location().map(|l| (l.file().to_string(), l.line())).unwrap_or(("?".into(), 0));
        let message = if let Some(s) = info.payload().downcast_ref::<&str>() { s.to_string() }
            else if let Some(s) = info.payload().downcast_ref::<String>() { s.clone() }
            else { "<non-string panic payload>".to_string() };
        // normalise /repo/ prefix
        let file = file.strip_prefix("/repo/").map(|s| s.to_string()).unwrap_or(file);
        // panics inside the standard library: drop the toolchain hash
        // generated sources (lalrpop output) live in a hashed build directory
        let file = match file.find("/out/parse/") { Some(i) => format!("out{}", &file[i + 4..]), None => file };
        let file = if file.starts_with("/rustc/") { format!("rustc/{}", file.splitn(4, '/').nth(3).unwrap_or("")) } else { file };
        if std::env::var("TV_BACKTRACE").is_ok() { eprintln!("panic at {}:{}: {}\n{}", file, line, message, std::backtrace::Backtrace::force_capture()); }
        LAST_PANIC.with(|p| *p.borrow_mut() = Some(PanicInfo { file, line, message }));
    }));
}

/// Run `f`, converting a panic into PanicInfo.
pub fn catch<T>(f: impl FnOnce() -> T) -> Result<T, PanicInfo> {
    LAST_PANIC.with(|p| *p.borrow_mut() = None);
    match std::panic::catch_unwind(std::panic::AssertUnwindSafe(f)) {
        Ok(v) => Ok(v),
        Err(_) => Err(LAST_PANIC.with(|p| p.borrow_mut().take()).unwrap_or(PanicInfo { file: "?".into(), line: 0, message: "?".into() })),
    }
}

// =============================================================================
// Allocation guard (C16): refuse absurd single allocations

pub struct GuardAlloc;
pub static ALLOC_LIMIT: AtomicUsize = AtomicUsize::new(usize::MAX);
pub static ALLOC_REFUSED: AtomicU64 = AtomicU64::new(0);
/// largest single request seen since the last reset (only requests >= 1 MiB are tracked)
pub static ALLOC_MAX_SINGLE: AtomicUsize = AtomicUsize::new(0);
#[inline] fn track(size: usize) { if size >= (1 << 20) { ALLOC_MAX_SINGLE.fetch_max(size, Ordering::Relaxed); } }

unsafe impl std::alloc::GlobalAlloc for GuardAlloc {
    unsafe fn alloc(&self, layout: std::alloc::Layout) -> *mut u8 {
        if layout.size() > ALLOC_LIMIT.load(Ordering::Relaxed) {
            ALLOC_REFUSED.store(layout.size() as u64, Ordering::SeqCst);
            return std::ptr::null_mut();
        }
        track(layout.size());
        std::alloc::System.alloc(layout)
    }
    unsafe fn dealloc(&self, ptr: *mut u8, layout: std::alloc::Layout) { std::alloc::System.dealloc(ptr, layout) }
    unsafe fn alloc_zeroed(&self, layout: std::alloc::Layout) -> *mut u8 {
        if layout.size() > ALLOC_LIMIT.load(Ordering::Relaxed) {
            ALLOC_REFUSED.store(layout.size() as u64, Ordering::SeqCst);
            return std::ptr::null_mut();
        }
        track(layout.size());
        std::alloc::System.alloc_zeroed(layout)
    }
    unsafe fn realloc(&self, ptr: *mut u8, layout: std::alloc::Layout, new_size: usize) -> *mut u8 {
        if new_size > ALLOC_LIMIT.load(Ordering::Relaxed) {
            ALLOC_REFUSED.store(new_size as u64, Ordering::SeqCst);
            return std::ptr::null_mut();
        }
        track(new_size);
        std::alloc::System.realloc(ptr, layout, new_size)
    }
}

// =============================================================================
// Shard runner

fn hash_case(v: &Value) -> u64 {
    // FNV-1a over the canonical JSON text
    let s = v.to_string();
    let mut h: u64 = 0xcbf29ce484222325;
    for b in s.as_bytes() { h ^= *b as u64; h = h.wrapping_mul(0x100000001b3); }
    h
}

pub struct ShardStats {
    pub evaluations: u64,
    pub sub_evaluations: u64,
    pub passes: u64,
    pub discards: BTreeMap<String, u64>,
    pub labels: BTreeMap<String, u64>,
    pub nontrivial: BTreeSet<u64>,
    pub samples: Vec<Value>,
    pub known_hits: BTreeMap<String, u64>,
    pub failure: Option<(Value, Failure)>,
    /// survey mode (TV_SURVEY=1, development only): signature -> (count, first case, message)
    pub survey: BTreeMap<String, (u64, Value, String)>,
}

impl ShardStats {
    fn new() -> Self { ShardStats { evaluations: 0, sub_evaluations: 0, passes: 0, discards: BTreeMap::new(), labels: BTreeMap::new(), nontrivial: BTreeSet::new(), samples: vec![], known_hits: BTreeMap::new(), failure: None, survey: BTreeMap::new() } }
    pub fn to_json(&self) -> Value {
        json!({
            "evaluations": self.evaluations,
            "sub_evaluations": self.sub_evaluations,
            "passes": self.passes,
            "discards": self.discards,
            "labels": self.labels,
            "nontrivial_hashes": self.nontrivial.iter().map(|h| format!("{:016x}", h)).collect::<Vec<_>>(),
            "samples": self.samples,
            "known_hits": self.known_hits,
            "failure": self.failure.as_ref().map(|(c, f)| json!({"case": c, "signature": f.signature, "message": f.message})),
            "survey": self.survey.iter().map(|(k, (n, c, m))| json!({"signature": k, "count": n, "case": c, "message": m})).collect::<Vec<_>>(),
        })
    }
}

pub static CASE_COUNTER: AtomicU64 = AtomicU64::new(0);

fn pending_path() -> String { format!("/dev/shm/tv-{}.case", std::process::id()) }

fn note_pending(case: &Value) {
    CASE_COUNTER.fetch_add(1, Ordering::SeqCst);
    let _ = std::fs::write(pending_path(), case.to_string());
}

/// Evaluate one case with panic capture; a panic that escapes the property's own handling is a failure.
pub fn eval_case(prop: &dyn Property, case: &Value, known: &Known, strict: bool) -> (Outcome, CheckCtx<'static>) {
    // SAFETY of lifetime: we leak nothing; we rebuild the ctx with a cloned Known to keep the signature simple.
    let known_static: &'static Known = Box::leak(Box::new(known.clone()));
    let mut ctx = CheckCtx::new(known_static, strict);
    let res = catch(|| prop.check(case, &mut ctx));
    let out = match res {
        Ok(o) => o,
        Err(p) => Outcome::Fail(p.to_failure("")),
    };
    (out, ctx)
}

pub fn run_shard(prop: &'static dyn Property, tier: Tier, seed: u64, cases: u32, shard: usize, nshards: usize, known: &Known) -> ShardStats {
    let stats = RefCell::new(ShardStats::new());
    let failed = std::cell::Cell::new(false);
    let survey = std::env::var("TV_SURVEY").map_or(false, |v| v == "1");
    // cheap leak: one per shard
    let known_static: &'static Known = Box::leak(Box::new(known.clone()));

    let record = |case: &Value, out: &Outcome, ctx: &CheckCtx| {
        let mut st = stats.borrow_mut();
        st.evaluations += 1;
        st.sub_evaluations += ctx.sub_evals.max(1);
        // (labels of discarded cases do not count: a required label must be reached by a case that was actually decided)
        if !matches!(out, Outcome::Discard(_)) { for l in &ctx.labels { *st.labels.entry(l.clone()).or_insert(0) += 1; } }
        for k in &ctx.known_hits { *st.known_hits.entry(k.clone()).or_insert(0) += 1; }
        match out {
            Outcome::Pass => {
                st.passes += 1;
                if ctx.nontrivial {
                    let h = hash_case(case);
                    if st.nontrivial.insert(h) && st.samples.len() < 3 { st.samples.push(case.clone()); }
                }
            }
            Outcome::Discard(r) => { *st.discards.entry(r.clone()).or_insert(0) += 1; }
            Outcome::Fail(_) => {}
        }
    };

    let run_one = |case: &Value| -> Outcome {
        note_pending(case);
        let mut ctx = CheckCtx::new(known_static, false);
        let res = catch(|| prop.check(case, &mut ctx));
        let mut out = match res { Ok(o) => o, Err(p) => Outcome::Fail(p.to_failure("")) };
        if let Outcome::Fail(f) = &out {
            if known_static.matches(&f.signature) {
                ctx.known_hits.push(f.signature.clone());
                out = Outcome::Discard("known-finding".into());
            }
        }
        if survey {
            if let Outcome::Fail(f) = &out {
                let mut st = stats.borrow_mut();
                let e = st.survey.entry(f.signature.clone()).or_insert((0, case.clone(), f.message.clone()));
                e.0 += 1;
                if case.to_string().len() < e.1.to_string().len() { e.1 = case.clone(); e.2 = f.message.clone(); }
                drop(st);
                out = Outcome::Discard("survey".into());
            }
        }
        if !failed.get() { record(case, &out, &ctx); }
        out
    };

    // 1. fixed cases
    let fixed = prop.fixed_cases(tier, known_static);
    for (i, case) in fixed.iter().enumerate() {
        if i % nshards != shard { continue; }
        if let Outcome::Fail(f) = run_one(case) {
            stats.borrow_mut().failure = Some((case.clone(), f));
            failed.set(true);
            let _ = std::fs::remove_file(pending_path());
            return stats.into_inner();
        }
    }

    // 2. random search
    if cases > 0 {
        let config = Config {
            cases,
            failure_persistence: None,
            rng_seed: RngSeed::Fixed(seed),
            max_shrink_iters: 4000,
            max_global_rejects: u32::MAX,
            max_local_rejects: u32::MAX,
            verbose: 0,
            source_file: None,
            ..Config::default()
        };
        let mut runner = TestRunner::new(config);
        let n = prop.tape_len(tier);
        let strategy = proptest::collection::vec(any::<u32>(), 0..=n);
        let result = runner.run(&strategy, |tape_data| {
            let mut tape = Tape::new(&tape_data);
            let gen = catch(|| prop.generate(&mut tape, tier, known_static));
            let case = match gen {
                Ok(c) => c,
                Err(p) => {
                    // a generator bug: surface loudly (it is a harness defect, not a violation)
                    eprintln!("HARNESS-BUG generator panicked: {:?}", p);
                    std::process::exit(4);
                }
            };
            match run_one(&case) {
                Outcome::Fail(f) => { failed.set(true); Err(TestCaseError::fail(f.signature)) }
                _ => Ok(()),
            }
        });
        match result {
            Ok(()) => {}
            Err(TestError::Fail(_, tape_data)) => {
                let mut tape = Tape::new(&tape_data);
                let case = prop.generate(&mut tape, tier, known_static);
                // a property about nondeterminism (C19) reproduces a failure only with some probability: evaluate the shrunk case a few times
                let mut f = None;
                for _ in 0..12 { if let (Outcome::Fail(x), _ctx) = eval_case(prop, &case, known_static, false) { f = Some(x); break; } }
                let f = f.unwrap_or_else(|| Failure::new("flaky", "shrunk case no longer fails (flaky check?)"));
                stats.borrow_mut().failure = Some((case, f));
            }
            Err(TestError::Abort(reason)) => {
                eprintln!("HARNESS-BUG proptest aborted: {}", reason);
                std::process::exit(4);
            }
        }
    }
    let _ = std::fs::remove_file(pending_path());
    stats.into_inner()
}

/// Watchdog: kill the process (exit code 3) if one case runs for more than `secs`.
pub fn start_watchdog(secs: u64, out_path: Option<String>) {
    std::thread::spawn(move || {
        let mut last = CASE_COUNTER.load(Ordering::SeqCst);
        let mut since = std::time::Instant::now();
        loop {
            std::thread::sleep(std::time::Duration::from_millis(500));
            let cur = CASE_COUNTER.load(Ordering::SeqCst);
            if cur != last { last = cur; since = std::time::Instant::now(); continue; }
            if since.elapsed().as_secs() >= secs {
                if let Some(p) = &out_path {
                    let _ = std::fs::write(p, json!({"timeout": true, "pending": pending_path()}).to_string());
                }
                eprintln!("WATCHDOG: case exceeded {} s", secs);
                std::process::exit(3);
            }
        }
    });
}
