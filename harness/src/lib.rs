//! tv — verification harness for ExpHP/truth: engine, generators, models and per-property checks
//! (library form, shared by the `tv` binary and the cargo-fuzz targets in `fuzz/`).
#[macro_use]
extern crate truth;

pub mod engine;
pub mod model;
pub mod gen;
pub mod tx;
pub mod files;
pub mod props;
pub fn setup() { truth::setup_for_test_harness(); crate::engine::install_panic_hook(); }
