//! tx: thin wrappers over truth's public API (the in-process mirrors of what cli_def does).
use truth::{ast, llir, Truth, Game};
use truth::llir::RawInstr;
use truth::vm::AstVm;
use truth::{ScalarValue, RegId};

use crate::gen::lang::LangSpec;
use crate::model::machine::MInstr;
use crate::model::ops::Val;

/// Run `f` with a fresh compiler instance that captures diagnostics.
pub fn with_truth<R>(f: impl FnOnce(&mut Truth) -> R) -> R {
    let mut scope = truth::Builder::new().capture_diagnostics(true).build();
    let mut truth = scope.truth();
    f(&mut truth)
}

pub fn diags(truth: &Truth) -> String { truth.get_captured_diagnostics().unwrap_or_default() }

/// Does the captured diagnostics text contain at least one error-severity diagnostic?
pub fn has_error_diag(d: &str) -> bool {
    d.lines().any(|l| l.starts_with("error") || l.starts_with("bug"))
}
pub fn has_warning_diag(d: &str) -> bool { d.lines().any(|l| l.starts_with("warning")) }

#[derive(Debug, Clone, Copy, PartialEq, Eq)]
pub enum Stage { Mapfile, Parse, Languages, Resolve, TypeCheck, ConstEval, ConstSimplify, Difficulty, Desugar, Lower, Finish }

pub struct Compiled {
    /// after resolution + type check (+ const simplify if requested), before desugaring
    pub structured: ast::Block,
    /// after desugar_blocks (what lower_sub receives)
    pub flat: ast::Block,
    pub instrs: Vec<RawInstr>,
    pub info: Option<truth::debug_info::ScriptLoweringInfo>,
}

#[derive(Clone, Copy)]
pub struct PipeOpts { pub const_simplify: bool, pub lower: bool, pub debug_info: bool, pub stop_after_typecheck: bool }

impl Default for PipeOpts { fn default() -> Self { PipeOpts { const_simplify: true, lower: true, debug_info: true, stop_after_typecheck: false } } }

/// The body-level compile pipeline of the stackless languages (mirrors formats/anm/mod.rs compile),
/// driven on a bare block with a TestLanguage.
pub fn compile_body(truth: &mut Truth, spec: &LangSpec, hooks: &llir::TestLanguage, text: &str, opts: PipeOpts) -> Result<Compiled, Stage> {
    compile_body_with(truth, &spec.mapfile_text(), Game::Th10, hooks, text, opts)
}

/// Same, with an explicit mapfile text and game (the language is the hooks' language).
pub fn compile_body_with(truth: &mut Truth, mapfile: &str, game: Game, hooks: &llir::TestLanguage, text: &str, opts: PipeOpts) -> Result<Compiled, Stage> {
    let language = hooks.language;
    truth.apply_mapfile_str(mapfile, game).map_err(|e| { e.ignore(); Stage::Mapfile })?;
    { let t = truth.validate_defs().map_err(|e| { e.ignore(); Stage::Mapfile })?; let _ = t; }
    let mut block = truth.parse::<ast::Block>("<input>", text.as_bytes()).map_err(|e| { e.ignore(); Stage::Parse })?.value;
    let ctx = truth.ctx();
    use truth::passes;
    passes::resolution::assign_languages(&mut block, language, ctx).map_err(|e| { e.ignore(); Stage::Languages })?;
    passes::resolution::compute_diff_label_masks(&mut block, ctx).map_err(|e| { e.ignore(); Stage::Languages })?;
    passes::resolution::resolve_names(&block, ctx).map_err(|e| { e.ignore(); Stage::Resolve })?;
    passes::type_check::run(&block, ctx).map_err(|e| { e.ignore(); Stage::TypeCheck })?;
    if opts.stop_after_typecheck { return Ok(Compiled { structured: block.clone(), flat: block, instrs: vec![], info: None }); }
    passes::evaluate_const_vars::run(ctx).map_err(|e| { e.ignore(); Stage::ConstEval })?;
    if opts.const_simplify {
        passes::const_simplify::run(&mut block, ctx).map_err(|e| { e.ignore(); Stage::ConstSimplify })?;
    }
    // as in the ECL pipeline (formats/ecl/ecl_06.rs): difficulty-related validation (switch lengths, warnings)
    passes::validate_difficulty::run(&block, ctx, hooks).map_err(|e| { e.ignore(); Stage::Difficulty })?;
    let structured = block.clone();
    passes::desugar_blocks::run(&mut block, ctx, language).map_err(|e| { e.ignore(); Stage::Desugar })?;
    let flat = block;
    if !opts.lower { return Ok(Compiled { structured, flat, instrs: vec![], info: None }); }

    let mut errors = truth::error::ErrorFlag::new();
    let mut lowerer = llir::Lowerer::new(hooks);
    let (instrs, info) = lowerer.lower_sub(&flat.0, None, ctx, opts.debug_info).unwrap_or_else(|e| { errors.set(e); (vec![], None) });
    lowerer.finish(ctx).unwrap_or_else(|e| errors.set(e));
    errors.into_result(()).map_err(|e| { e.ignore(); Stage::Lower })?;
    Ok(Compiled { structured, flat, instrs, info })
}

pub fn to_minstrs(instrs: &[RawInstr]) -> Vec<MInstr> {
    instrs.iter().map(|i| MInstr { time: i.time, opcode: i.opcode, mask: i.param_mask, blob: i.args_blob.clone(), difficulty: i.difficulty }).collect()
}

pub fn sv_to_val(v: &ScalarValue) -> Option<Val> {
    match v { ScalarValue::Int(x) => Some(Val::I(*x)), ScalarValue::Float(x) => Some(Val::F(*x)), ScalarValue::String(_) => None }
}
pub fn val_to_sv(v: Val) -> ScalarValue { match v { Val::I(x) => ScalarValue::Int(x), Val::F(x) => ScalarValue::Float(x) } }

/// Result of running the reference interpreter (AstVm) on a block.
#[derive(Debug, Clone)]
pub struct VmRun {
    pub time: i32,
    pub real_time: i32,
    pub log: Vec<(i32, u16, Vec<Val>)>,
    pub regs: std::collections::BTreeMap<i32, Val>,
}

#[derive(Debug, Clone)]
pub enum VmStop { Done(VmRun), IterLimit, Panic(String) }

/// Run AstVm on a block whose register aliases have been converted to raw registers.
/// `regs`: initial valuation; all of these registers are reported back.
pub fn run_vm(truth: &mut Truth, block_raw: &ast::Block, regs: &std::collections::BTreeMap<i32, Val>, difficulty: u32, max_iter: u32) -> VmStop {
    let mut vm = AstVm::new().with_max_iterations(max_iter).with_difficulty(difficulty);
    for (id, v) in regs { vm.set_reg(RegId(*id), val_to_sv(*v)); }
    let ctx = truth.ctx();
    let res = crate::engine::catch(|| { vm.run(&block_raw.0, ctx); });
    match res {
        Err(p) => { if p.message.contains("iteration limit exceeded") { VmStop::IterLimit } else { VmStop::Panic(format!("{}:{}: {}", p.file, p.line, p.message)) } }
        Ok(()) => {
            let mut out = std::collections::BTreeMap::new();
            for id in regs.keys() { if let Some(v) = vm.get_reg(RegId(*id)) { if let Some(v) = sv_to_val(&v) { out.insert(*id, v); } } }
            let log = vm.instr_log.iter().map(|c| (c.real_time, c.opcode, c.args.iter().filter_map(sv_to_val).collect())).collect();
            VmStop::Done(VmRun { time: vm.time, real_time: vm.real_time, log, regs: out })
        }
    }
}

/// Clone a block and convert aliases to raw registers / raw instructions so AstVm can run it.
pub fn to_raw(truth: &mut Truth, block: &ast::Block) -> Result<ast::Block, ()> {
    let mut b = block.clone();
    truth::passes::resolution::aliases_to_raw(&mut b, truth.ctx()).map_err(|e| { e.ignore(); })?;
    Ok(b)
}

pub fn stringify_block(block: &ast::Block) -> String { truth::fmt::stringify(block) }

/// Registers mentioned in a truth AST block (after aliases_to_raw).
pub fn ast_mentioned_regs(block: &ast::Block) -> std::collections::BTreeSet<i32> {
    use truth::ast::{Visit, Visitable};
    struct V(std::collections::BTreeSet<i32>);
    impl Visit for V {
        fn visit_var(&mut self, var: &truth::Sp<ast::Var>) {
            if let ast::VarName::Reg { reg, .. } = var.name { self.0.insert(reg.0); }
        }
    }
    let mut v = V(Default::default());
    block.visit_with(&mut v);
    v.0
}

pub fn from_minstrs(instrs: &[MInstr]) -> Vec<RawInstr> {
    instrs.iter().map(|i| RawInstr { time: i.time, opcode: i.opcode, param_mask: i.mask, args_blob: i.blob.clone(), difficulty: i.difficulty, ..RawInstr::DEFAULTS }).collect()
}

/// Raise raw instructions to a flat statement list (no block recovery).  The mapfile must already be applied.
pub fn raise_flat(truth: &mut Truth, hooks: &llir::TestLanguage, instrs: &[RawInstr], options: &truth::DecompileOptions) -> Result<Vec<truth::Sp<ast::Stmt>>, ()> {
    let emitter = truth.emitter();
    let ctx = truth.ctx();
    let const_proof = truth::passes::evaluate_const_vars::run(ctx).map_err(|e| { e.ignore(); })?;
    let mut raiser = llir::Raiser::new(hooks, ctx.emitter, ctx, options, const_proof).map_err(|e| { e.ignore(); })?;
    let script = llir::RawScript { instrs: instrs.to_vec(), file_offset: None };
    let stmts = raiser.raise_instrs_to_sub_ast(&emitter, &script, ctx).map_err(|e| { e.ignore(); })?;
    raiser.generate_warnings();
    Ok(stmts)
}

/// Format any formattable AST node at a given width.
pub fn format_at<T: truth::Format>(node: &T, width: usize) -> Result<String, String> {
    let mut out = vec![];
    {
        let mut f = truth::Formatter::with_config(&mut out, truth::fmt::Config::new().max_columns(width));
        f.fmt(node).map_err(|e| format!("{:#}", e))?;
    }
    String::from_utf8(out).map_err(|e| e.to_string())
}

/// Wrap raised statements in a script item and run the common decompile post-processing
/// (`blocks` selects whether loops / if-else chains / breaks are reconstructed).
pub fn postprocess(truth: &mut Truth, stmts: Vec<truth::Sp<ast::Stmt>>, blocks: bool) -> Result<ast::Block, ()> {
    let ident = truth::Ident::new_user("main").map_err(|_| ())?;
    let mut file = ast::ScriptFile {
        mapfiles: vec![], image_sources: vec![],
        items: vec![sp!(ast::Item::Script { number: None, ident: sp!(ident), code: ast::Block(stmts), keyword: sp!(()) })],
    };
    let options = truth::DecompileOptions { blocks, ..Default::default() };
    truth::passes::postprocess_decompiled(&mut file, truth.ctx(), &options).map_err(|e| { e.ignore(); })?;
    match file.items.pop().map(|i| i.value) { Some(ast::Item::Script { code, .. }) => Ok(code), _ => Err(()) }
}

/// Structural facts about a statement tree used by C07's invariants.
#[derive(Debug, Default, Clone, PartialEq)]
pub struct Shape {
    pub label_defs: std::collections::BTreeMap<String, usize>,
    pub label_refs: std::collections::BTreeSet<String>,
    pub time_labels: Vec<String>,
    pub explicit_time_gotos: usize,
    pub blocks: usize,
}

pub fn shape_of(block: &ast::Block) -> Shape {
    use truth::ast::{Visit, Visitable};
    struct V(Shape);
    impl Visit for V {
        fn visit_stmt(&mut self, s: &truth::Sp<ast::Stmt>) {
            match &s.kind {
                ast::StmtKind::Label(l) => *self.0.label_defs.entry(l.to_string()).or_insert(0) += 1,
                ast::StmtKind::AbsTimeLabel(t) => self.0.time_labels.push(format!("abs {}", t.value)),
                ast::StmtKind::RelTimeLabel { delta, .. } => self.0.time_labels.push(format!("rel {:?}", delta.as_const_int())),
                ast::StmtKind::CondChain(_) | ast::StmtKind::Loop { .. } | ast::StmtKind::While { .. } | ast::StmtKind::Times { .. } => self.0.blocks += 1,
                _ => {}
            }
            ast::walk_stmt(self, s);
        }
        fn visit_jump(&mut self, j: &ast::StmtJumpKind) {
            if let ast::StmtJumpKind::Goto(g) = j { self.0.label_refs.insert(g.destination.to_string()); if g.time.is_some() { self.0.explicit_time_gotos += 1; } }
        }
        fn visit_expr(&mut self, e: &truth::Sp<ast::Expr>) {
            if let ast::Expr::LabelProperty { label, .. } = &e.value { self.0.label_refs.insert(label.to_string()); }
            ast::walk_expr(self, e);
        }
    }
    let mut v = V(Shape::default());
    block.visit_with(&mut v);
    v.0
}

/// N-ast: fold `-<literal>` into a signed literal and drop the print-only radix hint, so that ASTs can be
/// compared "after constant folding of literal signs" (C08).
pub fn fold_literal_signs<T: truth::ast::Visitable>(x: &mut T) {
    use truth::ast::VisitMut;
    struct V;
    impl VisitMut for V {
        fn visit_expr(&mut self, e: &mut truth::Sp<ast::Expr>) {
            ast::walk_expr_mut(self, e);
            let folded = match &e.value {
                ast::Expr::UnOp(op, inner) if op.value == ast::UnOpKind::Neg => match &inner.value {
                    ast::Expr::LitInt { value, .. } => Some(ast::Expr::LitInt { value: value.wrapping_neg(), format: ast::IntFormat::SIGNED }),
                    ast::Expr::LitFloat { value } => Some(ast::Expr::LitFloat { value: -*value }),
                    _ => None,
                },
                ast::Expr::LitInt { value, .. } => Some(ast::Expr::LitInt { value: *value, format: ast::IntFormat::SIGNED }),
                _ => None,
            };
            if let Some(f) = folded { e.value = f; }
        }
    }
    x.visit_mut_with(&mut V);
}
