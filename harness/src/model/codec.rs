//! M-codec / G-sig: independent model of mapfile instruction signatures and of the binary argument
//! encoding they describe (grounded in the doc comments of llir/abi.rs, not in lower.rs / early.rs).
use crate::engine::Tape;

#[derive(Clone, Debug, PartialEq)]
pub enum StrSize { Block(usize), Pascal(usize), Fixed { len: usize, nulless: bool } }

#[derive(Clone, Debug, PartialEq)]
pub enum PKind {
    Int { size: u8, signed: bool },
    Float,
    Off,
    Time,
    Pad(u8),
    Str { size: StrSize, mask: [u8; 3], furibug: bool },
}

#[derive(Clone, Debug, PartialEq)]
pub struct Param { pub ch: char, pub kind: PKind, pub imm: bool, pub arg0: bool, pub hex: bool, /// carries `enum="bool"` (a type colour: it must not change the encoding or the range checks)
    pub enm: bool }

#[derive(Clone, Debug, PartialEq)]
pub struct Sig { pub params: Vec<Param> }

impl Param {
    pub fn simple(ch: char) -> Param {
        let kind = match ch {
            'S' | 'C' | 'n' | 'N' | 'E' => PKind::Int { size: 4, signed: true },
            'U' => PKind::Int { size: 4, signed: false },
            's' => PKind::Int { size: 2, signed: true },
            'u' => PKind::Int { size: 2, signed: false },
            'c' => PKind::Int { size: 1, signed: true },
            'b' => PKind::Int { size: 1, signed: false },
            'f' => PKind::Float,
            'o' => PKind::Off,
            't' => PKind::Time,
            '_' => PKind::Pad(4),
            '-' => PKind::Pad(1),
            _ => panic!("not a simple param {}", ch),
        };
        Param { ch, kind, imm: false, arg0: false, hex: false, enm: false }
    }
    pub fn is_pad(&self) -> bool { matches!(self.kind, PKind::Pad(_)) }
    pub fn is_string(&self) -> bool { matches!(self.kind, PKind::Str { .. }) }
    pub fn is_float(&self) -> bool { matches!(self.kind, PKind::Float) }
    /// may a register be passed here?
    pub fn reg_ok(&self) -> bool { matches!(self.kind, PKind::Int { .. } | PKind::Float) && !self.imm && !self.arg0 }

    pub fn print(&self) -> String {
        let mut attrs: Vec<String> = vec![];
        if self.arg0 { attrs.push("arg0".into()); }
        if self.imm { attrs.push("imm".into()); }
        if self.hex { attrs.push("hex".into()); }
        if self.enm { attrs.push("enum=\"bool\"".into()); }
        if let PKind::Str { size, mask, furibug } = &self.kind {
            match size {
                StrSize::Block(bs) | StrSize::Pascal(bs) => attrs.push(format!("bs={}", bs)),
                StrSize::Fixed { len, nulless } => { attrs.push(format!("len={}", len)); if *nulless { attrs.push("nulless".into()); } }
            }
            if self.ch == 'm' || *mask != [0, 0, 0] { attrs.push(format!("mask={},{},{}", mask[0], mask[1], mask[2])); }
            if *furibug { attrs.push("furibug".into()); }
        }
        if attrs.is_empty() { self.ch.to_string() } else { format!("{}({})", self.ch, attrs.join(";")) }
    }
}

impl Sig {
    pub fn print(&self) -> String { self.params.iter().map(|p| p.print()).collect() }
    pub fn real_params(&self) -> Vec<&Param> { self.params.iter().filter(|p| !p.is_pad()).collect() }
}

#[derive(Clone, Debug, PartialEq)]
pub enum Arg { I(i32), F(f32), Reg(i32), S(String) }

#[derive(Clone, Debug, Default, PartialEq)]
pub struct Encoded { pub blob: Vec<u8>, pub mask: u16, pub extra_arg: Option<i16> }

#[derive(Clone, Debug, PartialEq)]
pub enum EncodeIssue {
    /// integer does not survive encode->decode for this width/signedness
    IntDoesNotFit(usize),
    /// register where only an immediate is allowed
    RegInImmediate(usize),
    StringUnencodable(usize),
    StringTooLong(usize),
    /// a string containing NUL cannot round-trip
    StringHasNul(usize),
}

#[derive(Default, Clone, Debug)]
pub struct FuriState { pub carry: Option<Vec<u8>> }

pub fn sjis_encode(s: &str) -> Option<Vec<u8>> {
    let (bytes, _, had_errors) = encoding_rs::SHIFT_JIS.encode(s);
    if had_errors { None } else { Some(bytes.into_owned()) }
}
pub fn sjis_decode(b: &[u8]) -> Option<String> {
    let (s, had_errors) = encoding_rs::SHIFT_JIS.decode_without_bom_handling(b);
    if had_errors { None } else { Some(s.into_owned()) }
}

fn mask_bytes(mask: [u8; 3], n: usize) -> Vec<u8> {
    let (mut m, mut v, a) = (mask[0], mask[1], mask[2]);
    (0..n).map(|_| { let x = m; m = m.wrapping_add(v); v = v.wrapping_add(a); x }).collect()
}

pub fn int_fits(size: u8, signed: bool, v: i32) -> bool {
    match (size, signed) {
        (4, _) => true,
        (2, true) => (-32768..=32767).contains(&v),
        (2, false) => (0..=65535).contains(&v),
        (1, true) => (-128..=127).contains(&v),
        (1, false) => (0..=255).contains(&v),
        _ => false,
    }
}

/// Encode the arguments (one per non-padding parameter).  Returns the bytes the format description asks for,
/// and the list of reasons why these bytes would not decode back to the given arguments.
pub fn encode(sig: &Sig, args: &[Arg], state: &mut FuriState) -> Result<(Encoded, Vec<EncodeIssue>), String> {
    let mut out = Encoded::default();
    let mut issues = vec![];
    let mut bit = 0u32;
    let mut ai = 0usize;
    for p in &sig.params {
        if let PKind::Pad(n) = p.kind { out.blob.extend(std::iter::repeat(0).take(n as usize)); continue; }
        let arg = args.get(ai).ok_or("too few arguments")?;
        let idx = ai; ai += 1;
        if p.arg0 {
            match arg { Arg::I(v) => { if !int_fits(2, true, *v) { issues.push(EncodeIssue::IntDoesNotFit(idx)); } out.extra_arg = Some(*v as i16); } _ => return Err("arg0 needs an int immediate".into()) }
            continue;
        }
        let is_reg = matches!(arg, Arg::Reg(_));
        if is_reg {
            if p.reg_ok() { out.mask |= 1 << bit; } else { issues.push(EncodeIssue::RegInImmediate(idx)); }
        }
        bit += 1;
        match (&p.kind, arg) {
            (PKind::Int { size, signed }, Arg::I(v)) => {
                if !int_fits(*size, *signed, *v) { issues.push(EncodeIssue::IntDoesNotFit(idx)); }
                out.blob.extend(&v.to_le_bytes()[..*size as usize]);
            }
            (PKind::Int { size, signed }, Arg::Reg(r)) => { if !int_fits(*size, *signed, *r) { issues.push(EncodeIssue::IntDoesNotFit(idx)); } out.blob.extend(&r.to_le_bytes()[..*size as usize]); }
            (PKind::Off, Arg::I(v)) | (PKind::Time, Arg::I(v)) => out.blob.extend(v.to_le_bytes()),
            (PKind::Off, Arg::Reg(r)) | (PKind::Time, Arg::Reg(r)) => out.blob.extend(r.to_le_bytes()),
            (PKind::Float, Arg::F(x)) => out.blob.extend(x.to_bits().to_le_bytes()),
            (PKind::Float, Arg::Reg(r)) => out.blob.extend((*r as f32).to_bits().to_le_bytes()),
            (PKind::Str { size, mask, furibug }, Arg::S(s)) => {
                if s.contains('\0') { issues.push(EncodeIssue::StringHasNul(idx)); }
                let Some(mut bytes) = sjis_encode(s) else { issues.push(EncodeIssue::StringUnencodable(idx)); continue; };
                let with_nul = !matches!(size, StrSize::Fixed { nulless: true, .. });
                if with_nul { bytes.push(0); }
                if *furibug { if let Some(c) = state.carry.take() { bytes.extend(c); } }
                match size {
                    StrSize::Block(bs) | StrSize::Pascal(bs) => { if *bs > 0 { while bytes.len() % bs != 0 { bytes.push(0); } } }
                    StrSize::Fixed { len, .. } => { if bytes.len() > *len { issues.push(EncodeIssue::StringTooLong(idx)); continue; } bytes.resize(*len, 0); }
                }
                let m = mask_bytes(*mask, bytes.len());
                for (b, x) in bytes.iter_mut().zip(m) { *b ^= x; }
                if *furibug && s.starts_with('|') { state.carry = Some(bytes.clone()); }
                if matches!(size, StrSize::Pascal(_)) { out.blob.extend((bytes.len() as u32).to_le_bytes()); }
                out.blob.extend(bytes);
            }
            (k, a) => return Err(format!("argument {:?} does not match parameter kind {:?}", a, k)),
        }
    }
    if ai != args.len() { return Err("too many arguments".into()); }
    Ok((out, issues))
}

/// Decode a blob back to arguments (one per non-padding parameter).
pub fn decode(sig: &Sig, enc: &Encoded) -> Result<Vec<Arg>, String> {
    let mut out = vec![];
    let mut pos = 0usize;
    let mut bit = 0u32;
    let b = &enc.blob;
    let take = |pos: &mut usize, n: usize| -> Result<&[u8], String> { if *pos + n > b.len() { return Err("blob too short".into()); } let s = &b[*pos..*pos + n]; *pos += n; Ok(s) };
    for p in &sig.params {
        if let PKind::Pad(n) = p.kind { take(&mut pos, n as usize)?; continue; }
        if p.arg0 { out.push(Arg::I(enc.extra_arg.unwrap_or(0) as i32)); continue; }
        let is_reg = p.reg_ok() && (enc.mask >> bit) & 1 == 1;
        bit += 1;
        match &p.kind {
            PKind::Int { size, signed } => {
                let s = take(&mut pos, *size as usize)?;
                let v = match (size, signed) {
                    (4, _) => i32::from_le_bytes([s[0], s[1], s[2], s[3]]),
                    (2, true) => i16::from_le_bytes([s[0], s[1]]) as i32,
                    (2, false) => u16::from_le_bytes([s[0], s[1]]) as i32,
                    (1, true) => s[0] as i8 as i32,
                    _ => s[0] as i32,
                };
                out.push(if is_reg { Arg::Reg(v) } else { Arg::I(v) });
            }
            PKind::Off | PKind::Time => { let s = take(&mut pos, 4)?; out.push(Arg::I(i32::from_le_bytes([s[0], s[1], s[2], s[3]]))); }
            PKind::Float => { let s = take(&mut pos, 4)?; let x = f32::from_bits(u32::from_le_bytes([s[0], s[1], s[2], s[3]])); out.push(if is_reg { Arg::Reg(x as i32) } else { Arg::F(x) }); }
            PKind::Str { size, mask, .. } => {
                let n = match size {
                    StrSize::Block(_) => b.len() - pos,
                    StrSize::Pascal(_) => { let s = take(&mut pos, 4)?; u32::from_le_bytes([s[0], s[1], s[2], s[3]]) as usize }
                    StrSize::Fixed { len, .. } => *len,
                };
                let mut bytes = take(&mut pos, n)?.to_vec();
                let m = mask_bytes(*mask, bytes.len());
                for (x, y) in bytes.iter_mut().zip(m) { *x ^= y; }
                if let Some(z) = bytes.iter().position(|x| *x == 0) { bytes.truncate(z); }
                out.push(Arg::S(sjis_decode(&bytes).ok_or("undecodable string")?));
            }
            PKind::Pad(_) => unreachable!(),
        }
    }
    Ok(out)
}

// =============================================================================
// Generators

pub struct SigKnobs { pub registers: bool, pub strings: bool, pub jumps: bool, pub arg0: bool, pub max_params: usize, pub zero_bs: bool }

pub fn gen_sig(tape: &mut Tape, k: &SigKnobs) -> Sig {
    let n = tape.below(k.max_params + 1);
    let mut params = vec![];
    let mut have_o = false; let mut have_t = false;
    for i in 0..n {
        let c = tape.below(17);
        let p = match c {
            0 | 1 | 2 => Param::simple('S'),
            3 => Param::simple('f'),
            4 => Param::simple(*tape.pick(&['s', 'u'])),
            5 => Param::simple(*tape.pick(&['c', 'b'])),
            6 => Param::simple(*tape.pick(&['U', 'C', 'n', 'N', 'E'])),
            7 => Param::simple('_'),
            8 => Param::simple('-'),
            9 if k.jumps && !have_o => { have_o = true; Param::simple('o') }
            10 if k.jumps && have_o && !have_t => { have_t = true; Param::simple('t') }
            11 | 12 if k.strings => {
                // fixed buffers and Pascal strings may appear anywhere
                let mask = if tape.bool() { [0, 0, 0] } else { [tape.raw() as u8, tape.raw() as u8, tape.raw() as u8] };
                if tape.bool() {
                    let len = *tape.pick(&[4usize, 8, 16, 1, 32, 64]);
                    let ch = if mask == [0, 0, 0] && tape.bool() { 'z' } else { 'm' };
                    Param { ch, kind: PKind::Str { size: StrSize::Fixed { len, nulless: tape.chance(1, 4) }, mask, furibug: false }, imm: false, arg0: false, hex: false, enm: false }
                } else {
                    let bs = *tape.pick(&[4usize, 1, 2, 8, 16]);
                    Param { ch: 'p', kind: PKind::Str { size: StrSize::Pascal(bs), mask: [0, 0, 0], furibug: false }, imm: false, arg0: false, hex: false, enm: false }
                }
            }
            13 => { let mut p = Param::simple(*tape.pick(&['S', 'f', 's', 'b'])); p.imm = true; p }
            14 => { let mut p = Param::simple(*tape.pick(&['S', 'U', 'u', 'b'])); p.hex = true; p }
            15 => { let mut p = Param::simple(*tape.pick(&['S', 's', 'u', 'b', 'c', 'U'])); p.enm = true; p.imm = tape.bool(); p }
            _ => Param::simple('S'),
        };
        let _ = i;
        // attributes are orthogonal: any integer parameter may carry any subset of imm / hex / enum
        let mut p = p;
        if "SsUuCcb".contains(p.ch) && matches!(p.kind, PKind::Int { .. }) && tape.chance(1, 3) {
            if tape.chance(1, 2) { p.hex = true; }
            if tape.chance(1, 3) { p.imm = true; }
            if tape.chance(1, 4) { p.enm = true; }
        }
        params.push(p);
    }
    if k.arg0 && tape.chance(1, 2) {
        let mut p = Param::simple(*tape.pick(&['s', 'u', 'c', 'b'])); p.arg0 = true; params.insert(0, p);
    }
    // a block string (z/m with bs) may only be last
    if k.strings && tape.chance(1, 3) {
        let mask = if tape.bool() { [0, 0, 0] } else { [tape.raw() as u8, tape.raw() as u8, tape.raw() as u8] };
        let bs = if k.zero_bs && tape.chance(1, 20) { 0 } else { *tape.pick(&[4usize, 1, 2, 8, 16]) };
        let ch = if mask == [0, 0, 0] && tape.bool() { 'z' } else { 'm' };
        params.push(Param { ch, kind: PKind::Str { size: StrSize::Block(bs), mask, furibug: tape.chance(1, 4) }, imm: false, arg0: false, hex: false, enm: false });
    }
    Sig { params }
}

pub const STR_POOL: &[&str] = &["", "a", "abc", "abcd", "hello world", "ｱｲｳ", "アイウエオ", "漢字", "ソ", "表", "能", "―", "～", "a\\b", "|furi", "|ふり", "十", "構", "\"q\"", "x|y", "ABCDEFGHIJKLMNO", "0123456789abcdef0123456789abcdef", "😀", "한"];

pub fn gen_arg(tape: &mut Tape, p: &Param, allow_regs: bool, allow_bad: bool) -> Arg {
    let reg = |tape: &mut Tape, float: bool| Arg::Reg(if float { *tape.pick(&[1004, 1005, 1012]) } else { *tape.pick(&[1000, 1001, 1010, 1020]) });
    match &p.kind {
        PKind::Int { size, signed } => {
            if allow_regs && !p.arg0 && (p.reg_ok() || allow_bad) && tape.chance(1, 4) { return reg(tape, false); }
            let edges: Vec<i64> = match (size, signed) {
                (1, true) => vec![0, 1, -1, 127, -128, 128, -129, 255, 256],
                (1, false) => vec![0, 1, 255, 256, -1, 128, 1000],
                (2, true) => vec![0, 1, -1, 32767, -32768, 32768, -32769, 65535, 65536, 70000],
                (2, false) => vec![0, 1, 65535, 65536, -1, 32768, 70000],
                _ => vec![0, 1, -1, i32::MAX as i64, i32::MIN as i64, 65536, 255],
            };
            let mut v = *tape.pick(&edges) as i32;
            if !allow_bad && !int_fits(*size, *signed, v) { v = 1; }
            if p.arg0 && !allow_bad && !int_fits(2, true, v) { v = 2; }
            Arg::I(v)
        }
        PKind::Float => { if allow_regs && (p.reg_ok() || allow_bad) && tape.chance(1, 4) { return reg(tape, true); } Arg::F(*tape.pick(&[0.0f32, 1.0, -1.5, 0.1, 1e10, -0.0, 3.5])) }
        PKind::Off | PKind::Time => Arg::I(*tape.pick(&[0, 4, 100, -1])),
        PKind::Str { size, .. } => {
            let mut s = (*tape.pick(STR_POOL)).to_string();
            if tape.chance(1, 4) { let n = tape.below(40); s = std::iter::repeat(s.chars().next().unwrap_or('x')).take(n).collect(); }
            if !allow_bad {
                if sjis_encode(&s).is_none() { s = "ok".into(); }
                if let StrSize::Fixed { len, nulless } = size { let max = if *nulless { *len } else { len.saturating_sub(1) }; while sjis_encode(&s).map(|b| b.len()).unwrap_or(0) > max { s.pop(); } }
            }
            Arg::S(s)
        }
        PKind::Pad(_) => Arg::I(0),
    }
}

// =============================================================================
// Parsing signature strings (as found in mapfiles and in the built-in tables)

fn parse_int(s: &str) -> Option<i64> {
    let s = s.trim();
    if let Some(h) = s.strip_prefix("0x").or_else(|| s.strip_prefix("0X")) { i64::from_str_radix(h, 16).ok() }
    else if let Some(b) = s.strip_prefix("0b").or_else(|| s.strip_prefix("0B")) { i64::from_str_radix(b, 2).ok() }
    else { s.parse().ok() }
}

impl Sig {
    pub fn parse(text: &str) -> Result<Sig, String> {
        let chars: Vec<char> = text.chars().collect();
        let mut i = 0;
        let mut params = vec![];
        while i < chars.len() {
            let ch = chars[i]; i += 1;
            if ch.is_whitespace() { continue; }
            let mut attrs: Vec<(String, Option<String>)> = vec![];
            // attributes?
            let mut j = i; while j < chars.len() && chars[j].is_whitespace() { j += 1; }
            if j < chars.len() && chars[j] == '(' {
                let close = (j..chars.len()).find(|k| chars[*k] == ')').ok_or("unclosed attribute list")?;
                let inner: String = chars[j + 1..close].iter().collect();
                for a in inner.split(';') { let a = a.trim(); if a.is_empty() { continue; } match a.split_once('=') { Some((k, v)) => attrs.push((k.trim().to_string(), Some(v.trim().to_string()))), None => attrs.push((a.to_string(), None)) } }
                i = close + 1;
            }
            let get = |k: &str| attrs.iter().find(|(n, _)| n == k).map(|(_, v)| v.clone());
            let mut p = match ch {
                'S' | 'C' | 'n' | 'N' | 'E' | 'U' | 's' | 'u' | 'c' | 'b' | 'f' | 'o' | 't' | '_' | '-' => Param::simple(ch),
                'z' | 'm' | 'p' | 'P' => {
                    let mask = match get("mask") { Some(Some(m)) => { let v: Vec<i64> = m.split(',').filter_map(parse_int).collect(); if v.len() != 3 { return Err("mask needs three values".into()); } [v[0] as u8, v[1] as u8, v[2] as u8] } _ => [0, 0, 0] };
                    let bs = get("bs").flatten().and_then(|v| parse_int(&v));
                    let len = get("len").flatten().and_then(|v| parse_int(&v));
                    let size = match (ch, bs, len) {
                        ('p', Some(b), None) | ('P', Some(b), None) => StrSize::Pascal(b as usize),
                        (_, Some(b), None) => StrSize::Block(b as usize),
                        (_, None, Some(l)) => StrSize::Fixed { len: l as usize, nulless: get("nulless").is_some() },
                        _ => return Err(format!("string parameter '{}' needs bs or len", ch)),
                    };
                    Param { ch, kind: PKind::Str { size, mask, furibug: get("furibug").is_some() }, imm: false, arg0: false, hex: false, enm: false }
                }
                c => return Err(format!("unknown signature character {:?}", c)),
            };
            p.imm = get("imm").is_some(); p.arg0 = get("arg0").is_some(); p.hex = get("hex").is_some(); p.enm = get("enum").is_some();
            params.push(p);
        }
        Ok(Sig { params })
    }
}
