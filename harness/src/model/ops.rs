//! M-ops: independent reference semantics of the expression operators (documented machine semantics:
//! 32-bit wrapping integers, truncating division, shift counts mod 32, arithmetic `>>`, logical `>>>`,
//! comparisons giving 0/1, IEEE single floats, saturating-truncating float->int casts).
//! Nothing here calls into truth.

#[derive(Debug, Clone, Copy, PartialEq)]
pub enum Val { I(i32), F(f32) }

impl Val {
    pub fn is_int(self) -> bool { matches!(self, Val::I(_)) }
    pub fn as_i(self) -> i32 { match self { Val::I(x) => x, Val::F(x) => x as i32 } }
    pub fn as_f(self) -> f32 { match self { Val::I(x) => x as f32, Val::F(x) => x } }
    pub fn bits(self) -> u32 { match self { Val::I(x) => x as u32, Val::F(x) => x.to_bits() } }
    pub fn same(self, other: Val) -> bool {
        match (self, other) { (Val::I(a), Val::I(b)) => a == b, (Val::F(a), Val::F(b)) => a.to_bits() == b.to_bits(), _ => false }
    }
    pub fn show(self) -> String { match self { Val::I(x) => format!("{}", x), Val::F(x) => format!("{:?}f(0x{:08x})", x, x.to_bits()) } }
    /// value is outside the domain on which the properties are stated (NaN / inf)
    pub fn is_wild(self) -> bool { match self { Val::F(x) => !x.is_finite(), _ => false } }
}

pub const BINOPS: &[&str] = &["+", "-", "*", "/", "%", "==", "!=", "<", "<=", ">", ">=", "|", "^", "&", "||", "&&", "<<", ">>", ">>>"];
pub const ARITH: &[&str] = &["+", "-", "*", "/", "%"];
pub const COMPARE: &[&str] = &["==", "!=", "<", "<=", ">", ">="];
pub const BITWISE: &[&str] = &["|", "^", "&"];
pub const SHIFT: &[&str] = &["<<", ">>", ">>>"];
pub const LOGIC: &[&str] = &["||", "&&"];
pub const FLOATMATH: &[&str] = &["sin", "cos", "tan", "asin", "acos", "atan", "sqrt"];

#[derive(Debug, Clone, PartialEq)]
pub enum EvalErr { DivZero, TypeError(String) }

pub fn is_logic(op: &str) -> bool { op == "||" || op == "&&" }

/// Result type of a binary operator given the operand type (true = int).
pub fn binop_result_is_int(op: &str, operand_is_int: bool) -> bool {
    if COMPARE.contains(&op) { true } else { operand_is_int }
}

pub fn binop(op: &str, a: Val, b: Val) -> Result<Val, EvalErr> {
    match (a, b) {
        (Val::I(a), Val::I(b)) => Ok(Val::I(match op {
            "+" => a.wrapping_add(b),
            "-" => a.wrapping_sub(b),
            "*" => a.wrapping_mul(b),
            "/" => { if b == 0 { return Err(EvalErr::DivZero); } if a == i32::MIN && b == -1 { i32::MIN } else { a / b } }
            "%" => { if b == 0 { return Err(EvalErr::DivZero); } if a == i32::MIN && b == -1 { 0 } else { a % b } }
            "==" => (a == b) as i32,
            "!=" => (a != b) as i32,
            "<" => (a < b) as i32,
            "<=" => (a <= b) as i32,
            ">" => (a > b) as i32,
            ">=" => (a >= b) as i32,
            "|" => a | b,
            "^" => a ^ b,
            "&" => a & b,
            // value only meaningful as truthiness (callers compare by truthiness)
            "||" => ((a != 0) || (b != 0)) as i32,
            "&&" => ((a != 0) && (b != 0)) as i32,
            "<<" => ((a as u32) << ((b as u32) & 31)) as i32,
            ">>" => a >> ((b as u32) & 31),
            ">>>" => ((a as u32) >> ((b as u32) & 31)) as i32,
            _ => return Err(EvalErr::TypeError(format!("unknown int op {}", op))),
        })),
        (Val::F(a), Val::F(b)) => Ok(match op {
            "+" => Val::F(a + b),
            "-" => Val::F(a - b),
            "*" => Val::F(a * b),
            "/" => Val::F(a / b),
            "%" => Val::F(fmodf(a, b)),
            "==" => Val::I((a == b) as i32),
            "!=" => Val::I((a != b) as i32),
            "<" => Val::I((a < b) as i32),
            "<=" => Val::I((a <= b) as i32),
            ">" => Val::I((a > b) as i32),
            ">=" => Val::I((a >= b) as i32),
            _ => return Err(EvalErr::TypeError(format!("float op {}", op))),
        }),
        _ => Err(EvalErr::TypeError(format!("mixed operands for {}", op))),
    }
}

/// C fmod semantics: result has the sign of the dividend, |r| < |b|.
fn fmodf(a: f32, b: f32) -> f32 {
    // computed in f64 then rounded: exact for f32 inputs because fmod is exact
    ((a as f64) % (b as f64)) as f32
}

pub fn cast_f2i(x: f32) -> i32 { x as i32 }

/// is the float->int cast of x in the documented domain (truncation fits i32, not NaN)?
pub fn f2i_in_domain(x: f32) -> bool { x.is_finite() && x > -2147483904.0 && x < 2147483648.0 }

pub fn unop(op: &str, a: Val) -> Result<Val, EvalErr> {
    match (op, a) {
        ("-", Val::I(x)) => Ok(Val::I(x.wrapping_neg())),
        ("-", Val::F(x)) => Ok(Val::F(-x)),
        ("!", Val::I(x)) => Ok(Val::I((x == 0) as i32)),
        ("~", Val::I(x)) => Ok(Val::I(!x)),
        ("sin", Val::F(x)) => Ok(Val::F(x.sin())),
        ("cos", Val::F(x)) => Ok(Val::F(x.cos())),
        ("tan", Val::F(x)) => Ok(Val::F(x.tan())),
        ("asin", Val::F(x)) => Ok(Val::F(x.asin())),
        ("acos", Val::F(x)) => Ok(Val::F(x.acos())),
        ("atan", Val::F(x)) => Ok(Val::F(x.atan())),
        ("sqrt", Val::F(x)) => Ok(Val::F(x.sqrt())),
        ("int", Val::I(x)) | ("_S", Val::I(x)) => Ok(Val::I(x)),
        ("int", Val::F(x)) | ("_S", Val::F(x)) => Ok(Val::I(cast_f2i(x))),
        ("float", Val::I(x)) | ("_f", Val::I(x)) => Ok(Val::F(x as f32)),
        ("float", Val::F(x)) | ("_f", Val::F(x)) => Ok(Val::F(x)),
        _ => Err(EvalErr::TypeError(format!("unop {} on {:?}", op, a))),
    }
}
