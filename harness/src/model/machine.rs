//! M-machine: executes raw instructions of a generated register language directly from the bytes.
//! Independent of truth's vm.rs / raise / intrinsic placement code.
use std::collections::BTreeMap;
use super::ops::{self, Val};
use crate::gen::lang::{Intr, LangSpec};
use crate::gen::prog::Ty;

#[derive(Clone, Debug, PartialEq)]
pub struct MInstr { pub time: i32, pub opcode: u16, pub mask: u16, pub blob: Vec<u8>, pub difficulty: u8 }

#[derive(Clone, Debug, PartialEq)]
pub struct Call { pub real_time: i32, pub opcode: u16, pub args: Vec<Val> }

#[derive(Clone, Debug)]
pub struct Machine {
    pub regs: BTreeMap<i32, Val>,
    pub time: i32,
    pub real_time: i32,
    pub log: Vec<Call>,
    pub steps: u64,
    /// some operation left the documented domain (NaN/inf produced, float->int out of range)
    pub wild: bool,
    cmp: Option<(Val, Val)>,
}

#[derive(Debug, Clone, PartialEq)]
pub enum Stop { End, StepLimit, Error(String) }

/// one decoded argument slot
#[derive(Clone, Debug)]
struct Slot { ch: char, bits: u32, is_reg: bool }

fn decode_slots(sig: &str, blob: &[u8], mask: u16) -> Result<Vec<Slot>, String> {
    let mut out = vec![];
    let mut pos = 0usize;
    let mut bit = 0u32;
    for ch in sig.chars() {
        match ch {
            'S' | 'f' | 'o' | 't' | 'U' | 'C' | 'n' | 'N' | 'E' => {
                if pos + 4 > blob.len() { return Err(format!("blob too short for signature {:?}", sig)); }
                let bits = u32::from_le_bytes([blob[pos], blob[pos + 1], blob[pos + 2], blob[pos + 3]]);
                pos += 4;
                out.push(Slot { ch, bits, is_reg: (mask >> bit) & 1 == 1 });
                bit += 1;
            }
            '_' => { pos += 4; out.push(Slot { ch, bits: 0, is_reg: false }); }
            c => return Err(format!("M-machine: unsupported signature char {:?}", c)),
        }
    }
    if pos != blob.len() { return Err(format!("blob length {} does not match signature {:?}", blob.len(), sig)); }
    Ok(out)
}

impl Machine {
    pub fn new(regs: BTreeMap<i32, Val>) -> Machine {
        Machine { regs, time: 0, real_time: 0, log: vec![], steps: 0, wild: false, cmp: None }
    }

    fn reg_id(slot: &Slot) -> i32 {
        if slot.ch == 'f' { f32::from_bits(slot.bits) as i32 } else { slot.bits as i32 }
    }

    fn read(&mut self, slot: &Slot) -> Result<Val, String> {
        let want_float = slot.ch == 'f';
        if slot.is_reg {
            if want_float { let f = f32::from_bits(slot.bits); if f != f.round() { return Err(format!("non-integral float register id {}", f)); } }
            let id = Self::reg_id(slot);
            let v = *self.regs.get(&id).ok_or_else(|| format!("read of unknown register {}", id))?;
            Ok(match (want_float, v) {
                (true, Val::I(x)) => Val::F(x as f32),
                (true, Val::F(x)) => Val::F(x),
                (false, Val::I(x)) => Val::I(x),
                (false, Val::F(x)) => { if !ops::f2i_in_domain(x) { self.wild = true; } Val::I(ops::cast_f2i(x)) }
            })
        } else {
            Ok(if want_float { Val::F(f32::from_bits(slot.bits)) } else { Val::I(slot.bits as i32) })
        }
    }

    fn write(&mut self, slot: &Slot, v: Val) -> Result<(), String> {
        if !slot.is_reg { return Err("output argument of an intrinsic is not a register".into()); }
        let id = Self::reg_id(slot);
        if v.is_wild() { self.wild = true; }
        self.regs.insert(id, v);
        Ok(())
    }

    pub fn run(&mut self, spec: &LangSpec, instrs: &[MInstr], difficulty: u32, header: usize, step_limit: u64) -> Stop {
        // offsets
        let mut offsets = Vec::with_capacity(instrs.len() + 1);
        let mut off = 0usize;
        for i in instrs { offsets.push(off); off += header + i.blob.len(); }
        offsets.push(off);
        let find = |o: i32| -> Option<usize> { if o < 0 { None } else { offsets.binary_search(&(o as usize)).ok() } };

        let mut pc = 0usize;
        while pc < instrs.len() {
            self.steps += 1;
            if self.steps > step_limit { return Stop::StepLimit; }
            let ins = &instrs[pc];
            if self.time < ins.time { self.real_time = self.real_time.wrapping_add(ins.time.wrapping_sub(self.time)); self.time = ins.time; }
            if (ins.difficulty >> difficulty) & 1 == 0 { pc += 1; continue; }
            let Some(sig) = spec.sigs.get(&ins.opcode) else { return Stop::Error(format!("no signature for opcode {}", ins.opcode)); };
            let slots = match decode_slots(sig, &ins.blob, ins.mask) { Ok(s) => s, Err(e) => return Stop::Error(e) };
            let intr = spec.intrinsics.get(&ins.opcode);
            let Some(intr) = intr else {
                // plain call
                let mut args = vec![];
                for s in slots.iter().filter(|s| s.ch != '_') { match self.read(s) { Ok(v) => args.push(v), Err(e) => return Stop::Error(e) } }
                self.log.push(Call { real_time: self.real_time, opcode: ins.opcode, args });
                pc += 1; continue;
            };
            // split the slots: jump args, others (padding removed)
            let off_slot = slots.iter().find(|s| s.ch == 'o').cloned();
            let time_slot = slots.iter().find(|s| s.ch == 't').cloned();
            let rest: Vec<Slot> = slots.iter().filter(|s| !matches!(s.ch, 'o' | 't' | '_')).cloned().collect();
            macro_rules! tri { ($e:expr) => { match $e { Ok(v) => v, Err(e) => return Stop::Error(format!("opcode {}: {}", ins.opcode, e)) } } }
            let mut do_jump = false;
            match intr {
                Intr::Jmp => { do_jump = true; }
                Intr::Interrupt => { /* label only */ }
                Intr::AssignOp(op, ty) => {
                    if rest.len() != 2 { return Stop::Error("AssignOp arity".into()); }
                    let b = tri!(self.read(&rest[1]));
                    let v = if op == "=" { b } else {
                        // read the destination with the operation's type
                        let a = tri!(self.read(&Slot { ch: if *ty == Ty::Float { 'f' } else { 'S' }, bits: rest[0].bits, is_reg: rest[0].is_reg }));
                        tri!(ops::binop(&op[..op.len() - 1], a, b).map_err(|e| format!("{:?}", e)))
                    };
                    tri!(self.write(&rest[0], v));
                }
                Intr::BinOp(op, _ty) => {
                    if rest.len() != 3 { return Stop::Error("BinOp arity".into()); }
                    let a = tri!(self.read(&rest[1]));
                    let b = tri!(self.read(&rest[2]));
                    let v = tri!(ops::binop(op, a, b).map_err(|e| format!("{:?}", e)));
                    tri!(self.write(&rest[0], v));
                }
                Intr::UnOp(op, _ty) => {
                    if rest.len() != 2 { return Stop::Error("UnOp arity".into()); }
                    let a = tri!(self.read(&rest[1]));
                    let v = tri!(ops::unop(op, a).map_err(|e| format!("{:?}", e)));
                    tri!(self.write(&rest[0], v));
                }
                Intr::CountJmp(op) => {
                    if rest.len() != 1 { return Stop::Error("CountJmp arity".into()); }
                    let a = tri!(self.read(&rest[0])).as_i().wrapping_sub(1);
                    tri!(self.write(&rest[0], Val::I(a)));
                    do_jump = if op == ">" { a > 0 } else { a != 0 };
                }
                Intr::CondJmp(op, _ty) => {
                    if rest.len() != 2 { return Stop::Error("CondJmp arity".into()); }
                    let a = tri!(self.read(&rest[0]));
                    let b = tri!(self.read(&rest[1]));
                    do_jump = tri!(ops::binop(op, a, b).map_err(|e| format!("{:?}", e))).as_i() != 0;
                }
                Intr::Cmp(_ty) => {
                    if rest.len() != 2 { return Stop::Error("Cmp arity".into()); }
                    let a = tri!(self.read(&rest[0]));
                    let b = tri!(self.read(&rest[1]));
                    self.cmp = Some((a, b));
                }
                Intr::CmpJmp(op) => {
                    let Some((a, b)) = self.cmp else { return Stop::Error("CmpJmp without a preceding Cmp".into()); };
                    do_jump = tri!(ops::binop(op, a, b).map_err(|e| format!("{:?}", e))).as_i() != 0;
                }
            }
            if std::env::var("TV_DEBUG_MACHINE").is_ok() { eprintln!("pc={} op={} time={} ins.time={} do_jump={} time_slot={:?} sig={}", pc, ins.opcode, self.time, ins.time, do_jump, time_slot.as_ref().map(|t| t.bits), sig); }
            if do_jump {
                let Some(o) = off_slot else { return Stop::Error(format!("opcode {}: jump without offset arg", ins.opcode)); };
                if o.is_reg { return Stop::Error("jump offset is a register".into()); }
                let Some(dest) = find(o.bits as i32) else { return Stop::Error(format!("jump to offset {} which is not an instruction boundary", o.bits as i32)); };
                if let Some(t) = time_slot { if t.is_reg { return Stop::Error("jump time is a register".into()); } self.time = t.bits as i32; }
                pc = dest;
            } else {
                pc += 1;
            }
        }
        Stop::End
    }
}
