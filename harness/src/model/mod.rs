pub mod ops;
pub mod machine;
