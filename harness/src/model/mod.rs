pub mod ops;
pub mod machine;
pub mod consteval;
pub mod codec;
