//! Reference evaluation of constant expressions over G-prog trees, using M-ops.
use std::collections::BTreeMap;
use super::ops::{self, EvalErr, Val};
use crate::gen::prog::{Expr, Ty, VarRef};

pub type Env = BTreeMap<String, Val>;

pub fn cast(v: Val, ty: Ty) -> Val { match ty { Ty::Int => Val::I(v.as_i()), Ty::Float => Val::F(v.as_f()), Ty::Str => v } }

/// Evaluate; `domain_ok` is cleared when a float->int cast leaves the documented domain.
pub fn eval(e: &Expr, env: &Env, domain_ok: &mut bool) -> Result<Val, EvalErr> {
    match e {
        Expr::LitI(x) => Ok(Val::I(*x)),
        Expr::LitF(x) => Ok(Val::F(*x)),
        Expr::Const(n, _) => env.get(n).copied().ok_or_else(|| EvalErr::TypeError(format!("unknown const {}", n))),
        Expr::Var(v) => match &v.var {
            VarRef::Local { name, .. } => {
                let x = env.get(name).copied().ok_or_else(|| EvalErr::TypeError(format!("unknown const {}", name)))?;
                Ok(match v.sigil { Some(t) => { if t == Ty::Int { if let Val::F(f) = x { if !ops::f2i_in_domain(f) { *domain_ok = false; } } } cast(x, t) } None => x })
            }
            _ => Err(EvalErr::TypeError("register in const expression".into())),
        },
        Expr::Bin(op, a, b) => { let x = eval(a, env, domain_ok)?; let y = eval(b, env, domain_ok)?; ops::binop(op, x, y) }
        Expr::Un(op, a) => {
            let x = eval(a, env, domain_ok)?;
            if matches!(op.as_str(), "int" | "_S" | "$") { if let Val::F(f) = x { if !ops::f2i_in_domain(f) { *domain_ok = false; } } }
            let op2 = match op.as_str() { "$" => "_S", "%" => "_f", o => o };
            ops::unop(op2, x)
        }
        Expr::Ternary(c, a, b) => {
            let cv = eval(c, env, domain_ok)?;
            // both branches must be defined (truth evaluates both in const items)
            let av = eval(a, env, domain_ok)?; let bv = eval(b, env, domain_ok)?;
            Ok(if cv.as_i() != 0 { av } else { bv })
        }
        other => Err(EvalErr::TypeError(format!("not a constant expression: {:?}", other))),
    }
}
