//! In-process mirrors of the CLI's compile / decompile commands for the real file formats,
//! built from truth's public API plus the `verif_hooks::core_mapfile` hook.
use std::io::Cursor;
use std::collections::BTreeMap;
use truth::{ast, Game, LanguageKey, Truth};
use truth::io::{BinReader, BinWriter};

#[derive(Clone, Copy, Debug, PartialEq, Eq, PartialOrd, Ord)]
pub enum Fmt { Anm, Std, Msg, End, Mission, Ecl }

impl Fmt {
    pub fn name(self) -> &'static str { match self { Fmt::Anm => "anm", Fmt::Std => "std", Fmt::Msg => "msg", Fmt::End => "end", Fmt::Mission => "mission", Fmt::Ecl => "ecl" } }
    pub fn parse(s: &str) -> Fmt { match s { "anm" => Fmt::Anm, "std" => Fmt::Std, "msg" => Fmt::Msg, "end" => Fmt::End, "mission" => Fmt::Mission, _ => Fmt::Ecl } }
    pub fn languages(self) -> Vec<LanguageKey> {
        match self { Fmt::Anm => vec![LanguageKey::Anm], Fmt::Std => vec![LanguageKey::Std], Fmt::Msg => vec![LanguageKey::Msg], Fmt::End => vec![LanguageKey::End], Fmt::Mission => vec![], Fmt::Ecl => vec![LanguageKey::Ecl, LanguageKey::Timeline] }
    }
}

pub fn game_from_str(s: &str) -> Game { s.parse::<Game>().unwrap_or(Game::Th10) }

pub const ALL_GAMES: &[&str] = &["th06", "th07", "th08", "th09", "th095", "th10", "alcostg", "th11", "th12", "th125", "th128", "th13", "th14", "th143", "th15", "th16", "th165", "th17", "th18", "th185"];

/// The built-in tables, as data.
#[derive(Debug, Clone, Default)]
pub struct CoreTable { pub sigs: BTreeMap<u16, String>, pub intrinsics: BTreeMap<u16, String>, pub reg_types: BTreeMap<i32, String> }

pub fn core_table(game: Game, language: LanguageKey) -> CoreTable {
    let scope = truth::Builder::new().capture_diagnostics(true).build();
    let mut scope = scope;
    let mut truth = scope.truth();
    let m = truth::verif_hooks::core_mapfile(truth.ctx().emitter, game, language);
    let mut t = CoreTable::default();
    for (k, v) in &m.ins_signatures { t.sigs.insert(*k as u16, v.value.clone()); }
    for (k, v) in &m.ins_intrinsics { t.intrinsics.insert(*k as u16, v.value.clone()); }
    for (k, v) in &m.gvar_types { t.reg_types.insert(*k, v.value.clone()); }
    for (k, v) in &m.timeline_ins_signatures { t.sigs.insert(*k as u16, v.value.clone()); }
    t
}

fn load_core(truth: &mut Truth, fmt: Fmt, game: Game) {
    for lang in fmt.languages() {
        let m = truth::verif_hooks::core_mapfile(truth.ctx().emitter, game, lang);
        truth.apply_mapfile(&m, game).expect("failed to apply core mapfile");
    }
}

pub enum ImageSrc { AnmBytes(Vec<u8>), Dir(std::path::PathBuf) }

pub struct Compiled { pub bytes: Vec<u8>, pub debug_info: serde_json::Value, pub file: FileStruct,
    /// the two content sections of the debug-info document serialised directly (field / map order as the CLI writes them)
    pub debug_info_text: String }

/// The in-memory form of a file (what the compiler produced / what the reader returned).
pub enum FileStruct { Anm(truth::AnmFile), Std(truth::StdFile), Msg(truth::MsgFile), Mission(truth::MissionMsgFile), Ecl(truth::EclFile) }

impl FileStruct {
    pub fn write(&self, w: &mut BinWriter, fmt: Fmt, game: Game) -> Result<(), truth::ErrorReported> {
        match self {
            FileStruct::Anm(f) => f.write_to_stream(w, game),
            FileStruct::Std(f) => f.write_to_stream(w, game),
            FileStruct::Msg(f) => f.write_to_stream(w, game, if fmt == Fmt::End { LanguageKey::End } else { LanguageKey::Msg }),
            FileStruct::Mission(f) => f.write_to_stream(w, game),
            FileStruct::Ecl(f) => f.write_to_stream(w, game),
        }
    }
    pub fn debug_string(&self) -> String {
        match self { FileStruct::Anm(f) => format!("{:#?}", f), FileStruct::Std(f) => format!("{:#?}", f), FileStruct::Msg(f) => format!("{:#?}", f), FileStruct::Mission(f) => format!("{:#?}", f), FileStruct::Ecl(f) => format!("{:#?}", f) }
    }
}

/// Read a binary into its in-memory form (with image data for ANM when `with_images`).
pub fn read_file(truth: &mut Truth, fmt: Fmt, game: Game, bytes: &[u8], with_images: bool) -> Result<FileStruct, DStage> {
    let emitter = truth.ctx().emitter;
    let mut r = BinReader::from_reader(emitter, "<input file>", Cursor::new(bytes.to_vec()));
    macro_rules! ig { ($e:expr) => { $e.map_err(|e| { e.ignore(); DStage::Read })? } }
    Ok(match fmt {
        Fmt::Anm => FileStruct::Anm(ig!(truth::AnmFile::read_from_stream(&mut r, game, with_images))),
        Fmt::Std => FileStruct::Std(ig!(truth::StdFile::read_from_stream(&mut r, game))),
        Fmt::Msg => FileStruct::Msg(ig!(truth::MsgFile::read_from_stream(&mut r, game, LanguageKey::Msg))),
        Fmt::End => FileStruct::Msg(ig!(truth::MsgFile::read_from_stream(&mut r, game, LanguageKey::End))),
        Fmt::Mission => FileStruct::Mission(ig!(truth::MissionMsgFile::read_from_stream(&mut r, game))),
        Fmt::Ecl => FileStruct::Ecl(ig!(truth::EclFile::read_from_stream(&mut r, game))),
    })
}

#[derive(Debug, Clone, Copy, PartialEq, Eq)]
pub enum CStage { Mapfile, Parse, Validate, Compile, ImageSource, Finalize, Write }

/// Mirror of `cli_def::*_compile::run`.
pub fn compile_file(truth: &mut Truth, fmt: Fmt, game: Game, text: &[u8], user_maps: &[String], sources: Vec<ImageSrc>) -> Result<Compiled, CStage> {
    compile_file_ex(truth, fmt, game, text, user_maps, &[], sources)
}

/// `map_files` are read from disk the way `-m FILE` is (bytes -> UTF-8 check -> seqmap parser).
pub fn compile_file_ex(truth: &mut Truth, fmt: Fmt, game: Game, text: &[u8], user_maps: &[String], map_files: &[std::path::PathBuf], sources: Vec<ImageSrc>) -> Result<Compiled, CStage> {
    load_core(truth, fmt, game);
    for m in user_maps { truth.apply_mapfile_str(m, game).map_err(|e| { e.ignore(); CStage::Mapfile })?; }
    for m in map_files { truth.load_mapfile(m, game).map_err(|e| { e.ignore(); CStage::Mapfile })?; }
    let ast = truth.parse::<ast::ScriptFile>("<input>", text).map_err(|e| { e.ignore(); CStage::Parse })?.value;
    truth.load_mapfiles_from_pragmas(game, &ast).map_err(|e| { e.ignore(); CStage::Mapfile })?;
    if fmt != Fmt::Anm { truth.expect_no_image_sources(&ast).map_err(|e| { e.ignore(); CStage::Parse })?; }
    let mut t = truth.validate_defs().map_err(|e| { e.ignore(); CStage::Validate })?;
    let emitter = t.ctx().emitter;
    let mut w = BinWriter::from_writer(emitter, "<output>", Cursor::new(vec![]));
    macro_rules! ig { ($e:expr, $s:expr) => { $e.map_err(|e| { e.ignore(); $s })? } }
    let file = match fmt {
        Fmt::Anm => {
            let mut c = ig!(t.compile_anm(game, &ast), CStage::Compile);
            // image sources referenced in the file take precedence (as in the CLI)
            for lit in &ast.image_sources {
                let src = ig!(t.read_image_source(game, std::path::Path::new(&lit.string)), CStage::ImageSource);
                let fs = t.fs();
                ig!(c.apply_image_source(src, &fs), CStage::ImageSource);
            }
            for s in sources {
                let fs = t.fs();
                let src = match s {
                    ImageSrc::Dir(p) => truth::anm::ImageSource::Directory(p),
                    ImageSrc::AnmBytes(b) => {
                        let mut r = BinReader::from_reader(emitter, "<image source>", Cursor::new(b));
                        truth::anm::ImageSource::Anm(ig!(truth::AnmFile::read_from_stream(&mut r, game, true), CStage::ImageSource))
                    }
                };
                ig!(c.apply_image_source(src, &fs), CStage::ImageSource);
            }
            FileStruct::Anm(ig!(t.finalize_anm(game, c), CStage::Finalize))
        }
        Fmt::Std => FileStruct::Std(ig!(t.compile_std(game, &ast), CStage::Compile)),
        Fmt::Msg => FileStruct::Msg(ig!(t.compile_msg(game, LanguageKey::Msg, &ast), CStage::Compile)),
        Fmt::End => FileStruct::Msg(ig!(t.compile_msg(game, LanguageKey::End, &ast), CStage::Compile)),
        Fmt::Mission => FileStruct::Mission(ig!(t.compile_mission(game, &ast), CStage::Compile)),
        Fmt::Ecl => FileStruct::Ecl(ig!(t.compile_ecl(game, &ast), CStage::Compile)),
    };
    ig!(file.write(&mut w, fmt, game), CStage::Write);
    let bytes = w.into_inner().into_inner();
    let c = t.ctx();
    let debug_info = serde_json::json!({
        "exported-scripts": serde_json::to_value(&c.script_debug_info).unwrap(),
        "consts": serde_json::to_value(&c.consts.debug_info(&c.defs)).unwrap(),
    });
    let debug_info_text = format!("{}\n{}", serde_json::to_string(&c.script_debug_info).unwrap_or_default(), serde_json::to_string(&c.consts.debug_info(&c.defs)).unwrap_or_default());
    Ok(Compiled { bytes, debug_info, file, debug_info_text })
}

#[derive(Debug, Clone, Copy, PartialEq, Eq)]
pub enum DStage { Mapfile, Validate, Read, Decompile }

/// Mirror of `cli_def::*_decompile::decompile`.
pub fn decompile_file(truth: &mut Truth, fmt: Fmt, game: Game, bytes: &[u8], options: &truth::DecompileOptions, user_maps: &[String]) -> Result<ast::ScriptFile, DStage> {
    load_core(truth, fmt, game);
    for m in user_maps { truth.apply_mapfile_str(m, game).map_err(|e| { e.ignore(); DStage::Mapfile })?; }
    let mut t = truth.validate_defs().map_err(|e| { e.ignore(); DStage::Validate })?;
    let emitter = t.ctx().emitter;
    let mut r = BinReader::from_reader(emitter, "<input file>", Cursor::new(bytes.to_vec()));
    macro_rules! ig { ($e:expr, $s:expr) => { $e.map_err(|e| { e.ignore(); $s })? } }
    Ok(match fmt {
        Fmt::Anm => { let f = ig!(truth::AnmFile::read_from_stream(&mut r, game, false), DStage::Read); ig!(t.decompile_anm(game, &f, options), DStage::Decompile) }
        Fmt::Std => { let f = ig!(truth::StdFile::read_from_stream(&mut r, game), DStage::Read); ig!(t.decompile_std(game, &f, options), DStage::Decompile) }
        Fmt::Msg => { let f = ig!(truth::MsgFile::read_from_stream(&mut r, game, LanguageKey::Msg), DStage::Read); ig!(t.decompile_msg(game, LanguageKey::Msg, &f, options), DStage::Decompile) }
        Fmt::End => { let f = ig!(truth::MsgFile::read_from_stream(&mut r, game, LanguageKey::End), DStage::Read); ig!(t.decompile_msg(game, LanguageKey::End, &f, options), DStage::Decompile) }
        Fmt::Mission => { let f = ig!(truth::MissionMsgFile::read_from_stream(&mut r, game), DStage::Read); ig!(t.decompile_mission(game, &f), DStage::Decompile) }
        Fmt::Ecl => { let f = ig!(truth::EclFile::read_from_stream(&mut r, game), DStage::Read); ig!(t.decompile_ecl(game, &f, options), DStage::Decompile) }
    })
}

/// Read an ANM file with images and extract them into `dir` (mirror of `truanm extract`).
pub fn extract_images(truth: &mut Truth, game: Game, bytes: &[u8], dir: &std::path::Path) -> Result<(), DStage> {
    let t = truth.validate_defs().map_err(|e| { e.ignore(); DStage::Validate })?;
    let fs = t.fs();
    let mut r = BinReader::from_reader(fs.emitter, "<input file>", Cursor::new(bytes.to_vec()));
    let f = truth::AnmFile::read_from_stream(&mut r, game, true).map_err(|e| { e.ignore(); DStage::Read })?;
    f.extract_images(dir, &fs).map_err(|e| { e.ignore(); DStage::Decompile })
}
