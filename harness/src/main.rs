//! tv — verification harness for ExpHP/truth (property-based testing engine; see /verif/DESIGN.md)
use tv::{engine, files, gen, props, tx};
use engine::*;
use serde_json::{json, Value};

#[global_allocator]
static GLOBAL: engine::GuardAlloc = engine::GuardAlloc;

fn arg_value(args: &[String], name: &str) -> Option<String> {
    args.iter().position(|a| a == name).and_then(|i| args.get(i + 1).cloned())
}

fn main() {
    let args: Vec<String> = std::env::args().collect();
    if args.len() < 3 && !(args.len() == 2 && (args[1] == "list" || args[1] == "spec")) { eprintln!("usage: tv run|replay|list <ID> ..."); std::process::exit(64); }
    let cmd = args[1].as_str();
    truth::setup_for_test_harness();
    install_panic_hook();

    if cmd == "fmt-debug" {
        // tv fmt-debug WIDTH < text : parse a block, print it at WIDTH, reparse, print again
        use std::io::Read;
        let mut text = String::new(); std::io::stdin().read_to_string(&mut text).unwrap();
        let w: usize = args[2].parse().unwrap();
        let x = match tx::with_truth(|t| t.parse::<truth::ast::Block>("<input>", text.as_bytes()).map(|x| x.value).map_err(|e| { e.ignore(); tx::diags(t) })) { Ok(x) => x, Err(d) => { println!("source does not parse:\n{}", d); return; } };
        let s1 = tx::format_at(&x, w).unwrap();
        let y = match tx::with_truth(|t| t.parse::<truth::ast::Block>("<input>", s1.as_bytes()).map(|x| x.value).map_err(|e| { e.ignore(); tx::diags(t) })) { Ok(x) => x, Err(d) => { println!("--- first\n{}\nprinted text does not parse:\n{}", s1, d); return; } };
        let s2 = tx::format_at(&y, w).unwrap();
        println!("--- first\n{}--- second\n{}--- equal ast: {}", s1, s2, x == y);
        return;
    }
    if cmd == "core" {
        // tv core <language> <game>
        let lang = match args[2].as_str() { "anm" => truth::LanguageKey::Anm, "std" => truth::LanguageKey::Std, "msg" => truth::LanguageKey::Msg, "end" => truth::LanguageKey::End, "timeline" => truth::LanguageKey::Timeline, _ => truth::LanguageKey::Ecl };
        let t = files::core_table(files::game_from_str(&args[3]), lang);
        println!("{}", json!({"sigs": t.sigs.iter().map(|(k, v)| (k.to_string(), json!(v))).collect::<serde_json::Map<_, _>>(), "intrinsics": t.intrinsics.iter().map(|(k, v)| (k.to_string(), json!(v))).collect::<serde_json::Map<_, _>>(), "reg_types": t.reg_types.iter().map(|(k, v)| (k.to_string(), json!(v))).collect::<serde_json::Map<_, _>>()}));
        return;
    }
    if cmd == "spec" { println!("{}", gen::lang::default_lang().to_json()); return; }
    if cmd == "list" { for p in props::all() { println!("{}", p.id()); } return; }

    let id = args[2].clone();
    let Some(prop) = props::all().into_iter().find(|p| p.id() == id) else { eprintln!("unknown property {}", id); std::process::exit(64); };
    let known_path = arg_value(&args, "--known");
    let known = Known::load(known_path.as_deref(), &id);
    let tier = Tier::parse(&arg_value(&args, "--tier").unwrap_or("quick".into()));

    // All work happens on a thread with the CLI's main-thread stack size (8 MiB).
    let handle = std::thread::Builder::new().stack_size(8 << 20).spawn(move || -> i32 {
        match cmd_dispatch(&args, prop, tier, &known) { Ok(c) => c, Err(e) => { eprintln!("error: {}", e); 64 } }
    }).unwrap();
    let code = handle.join().unwrap_or(70);
    std::process::exit(code);
}

fn cmd_dispatch(args: &[String], prop: &'static dyn Property, tier: Tier, known: &Known) -> Result<i32, String> {
    match args[1].as_str() {
        "run" => {
            let seed: u64 = arg_value(args, "--seed").and_then(|s| s.parse().ok()).unwrap_or(0);
            let cases: u32 = arg_value(args, "--cases").and_then(|s| s.parse().ok()).unwrap_or_else(|| prop.cases(tier));
            let shard: usize = arg_value(args, "--shard").and_then(|s| s.parse().ok()).unwrap_or(0);
            let nshards: usize = arg_value(args, "--nshards").and_then(|s| s.parse().ok()).unwrap_or(1);
            let out = arg_value(args, "--out");
            start_watchdog(900, out.clone());
            let stats = run_shard(prop, tier, seed, cases, shard, nshards, known);
            let mut j = stats.to_json();
            j["rule"] = json!(prop.rule());
            j["required_labels"] = json!(prop.required_labels(tier));
            j["max_discard_fraction"] = json!(prop.max_discard_fraction());
            match out { Some(p) => std::fs::write(p, j.to_string()).map_err(|e| e.to_string())?, None => println!("{}", j) }
            Ok(if stats.failure.is_some() { 1 } else { 0 })
        }
        "replay" => {
            // tv replay ID FILE [--lenient]: file is either {"case":...} or the bare case
            let path = args.get(3).ok_or("missing file")?;
            let text = std::fs::read_to_string(path).map_err(|e| e.to_string())?;
            let v: Value = serde_json::from_str(&text).map_err(|e| e.to_string())?;
            let case = if v.get("case").is_some() { v["case"].clone() } else { v };
            start_watchdog(900, None);
            let strict = !args.iter().any(|a| a == "--lenient");
            let (out, ctx) = eval_case(prop, &case, known, strict);
            let j = match &out {
                Outcome::Pass => json!({"outcome": "pass", "labels": ctx.labels, "nontrivial": ctx.nontrivial}),
                Outcome::Discard(r) => json!({"outcome": "discard", "reason": r}),
                Outcome::Fail(f) => json!({"outcome": "fail", "signature": f.signature, "message": f.message}),
            };
            println!("{}", j);
            Ok(if matches!(out, Outcome::Fail(_)) { 1 } else { 0 })
        }
        "info" => {
            println!("{}", json!({"cases": prop.cases(tier), "tape_len": prop.tape_len(tier), "rule": prop.rule()}));
            Ok(0)
        }
        "gen" => {
            // tv gen ID --seed S --n N : print N generated cases (for inspection)
            let seed: u64 = arg_value(args, "--seed").and_then(|s| s.parse().ok()).unwrap_or(0);
            let n: usize = arg_value(args, "--n").and_then(|s| s.parse().ok()).unwrap_or(5);
            let mut x = seed.wrapping_mul(0x9E3779B97F4A7C15) | 1;
            for _ in 0..n {
                let len = prop.tape_len(tier);
                let data: Vec<u32> = (0..len).map(|_| { x ^= x << 13; x ^= x >> 7; x ^= x << 17; (x >> 16) as u32 }).collect();
                let mut tape = Tape::new(&data);
                let case = prop.generate(&mut tape, tier, known);
                if args.iter().any(|a| a == "--text") {
                    if let Some(s) = case.get("text").and_then(|t| t.as_str()) { println!("{}\n-----", s); continue; }
                }
                println!("{}", case);
            }
            Ok(0)
        }
        other => Err(format!("unknown command {}", other)),
    }
}
