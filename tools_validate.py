#!/usr/bin/env python3
"""Validate MANIFEST.json and evidence files against the schemas (run with python3-vt)."""
import json, sys, glob, jsonschema
m = json.load(open('/verif/MANIFEST.json'))
jsonschema.validate(m, json.load(open('/root/.vp/MANIFEST.schema.json')))
print('manifest ok:', len(m['checks']), 'checks,', len(m.get('not_applicable', [])), 'not applicable')
es = json.load(open('/root/.vp/EVIDENCE.schema.json'))
for f in sorted(glob.glob('/verif/evidence/*.json')):
    jsonschema.validate(json.load(open(f)), es)
    print('evidence ok:', f)
