#!/usr/bin/env python3
"""Compare a `cargo test --workspace --no-fail-fast` log with /root/.vp/BASELINE.json: every stable-pass test must be ok."""
import json, re, sys
log = open(sys.argv[1]).read()
base = json.load(open('/root/.vp/BASELINE.json'))
stable = base['stable_pass']
ok = set(); failed = set()
cur = None
for line in log.splitlines():
    m = re.match(r'\s*Running (?:unittests )?(\S+) \(', line)
    if m:
        p = m.group(1)
        if p.startswith('tests/'): cur = p[len('tests/'):].rsplit('.', 1)[0].replace('/', '::')
        elif p.startswith('src/lib'): cur = ''
        elif p.startswith('src/bin') or p.startswith('src/main'): cur = None
        else: cur = p
        continue
    m = re.match(r'test (\S+)(?: - should panic)? \.\.\. (ok|FAILED|ignored)', line)
    if m:
        name = m.group(1)
        (ok if m.group(2) == 'ok' else failed).add(name)
missing = []
for s in stable:
    # stable names look like truth::<binary-ish>::<path>; match by suffix against collected names
    parts = s.split('::')
    cands = ['::'.join(parts[i:]) for i in range(1, len(parts))]
    if not any(c in ok for c in cands):
        missing.append(s)
print(f"ok={len(ok)} failed={len(failed)} stable={len(stable)} stable-not-ok={len(missing)}")
for m in missing[:30]: print("  NOT OK:", m)
sys.exit(1 if missing else 0)
