#!/usr/bin/env python3
"""Runs checks against the seeded mutants in seeded/<name>/ (patch.diff made against /repo).
usage: tools_seeded.py NAME [CHECK_ID ...]   (default check: the property named in meta.json)
Applies the patch to /repo's working tree, runs ./check, and ALWAYS reverts (git checkout -- .)."""
import json, os, subprocess, sys
V = os.path.dirname(os.path.abspath(__file__))
name = sys.argv[1]
d = os.path.join(V, "seeded", name)
meta = json.load(open(os.path.join(d, "meta.json")))
checks = sys.argv[2:] or [meta["property"]]
assert subprocess.run(["git", "-C", "/repo", "status", "--porcelain", "--untracked-files=no"], capture_output=True, text=True).stdout.strip() == "", "/repo has local changes"
r = subprocess.run(["git", "-C", "/repo", "apply", os.path.join(d, "patch.diff")], capture_output=True, text=True)
if r.returncode != 0:
    print("patch does not apply:", r.stderr); sys.exit(2)
results = {}
try:
    for c in checks:
        # evidence/<id>.json must describe the unchanged tree: keep the committed file and put it back afterwards
        ev = os.path.join(V, "evidence", f"{c}.json")
        saved = open(ev).read() if os.path.exists(ev) else None
        p = subprocess.run([os.path.join(V, "check"), c], capture_output=True, text=True, cwd=V)
        viol = [l for l in p.stdout.splitlines() if l.startswith("VIOLATION")]
        sig = [l for l in p.stdout.splitlines() if l.startswith("--- ")]
        results[c] = {"exit": p.returncode, "violation": viol[:1], "signature": sig[:1]}
        print(name, c, "exit", p.returncode, (sig[:1] or [""])[0][:150])
        if saved is not None: open(ev, "w").write(saved)
finally:
    subprocess.run(["git", "-C", "/repo", "checkout", "--", "."])
res_path = os.path.join(d, "result.json")
old = json.load(open(res_path)) if os.path.exists(res_path) else {}
old.update(results)
json.dump(old, open(res_path, "w"), indent=1)
