#!/bin/bash
# Development sweep (not a registered command): build once against /repo as it is NOW, then run the given
# tier for several seeds and properties without rebuilding, so that later edits of /repo do not leak in.
#   tools_sweep.sh TIER "SEEDS" ID...        e.g. tools_sweep.sh thorough "1 2" C01 C02
# Meant for `vp run -- ./tools_sweep.sh ...`; prints one line per run and keeps failing replays under replays/.
tier=$1; seeds=$2; shift 2
cd "$(dirname "$0")"
(cd harness && CARGO_NET_OFFLINE=true cargo build --release --offline 2>&1 | tail -1)
for id in "$@"; do
  if [ "$id" = C19 ]; then (cd /repo && CARGO_PROFILE_RELEASE_DEBUG=false cargo build --release --offline --bin truth-core --target-dir "$PWD/harness/target-cli" 2>&1 | tail -1); fi
done
rc_all=0
for seed in $seeds; do
  for id in "$@"; do
    VERIF_SEED=$seed TV_NO_BUILD=1 ./check $id --tier $tier > sweep-$id-$tier-$seed.log 2>&1
    rc=$?
    echo "SWEEP $id tier=$tier seed=$seed exit=$rc $(grep -c VIOLATION sweep-$id-$tier-$seed.log) violations; $(tail -1 sweep-$id-$tier-$seed.log | cut -c1-200)"
    if [ $rc -ne 0 ]; then rc_all=1; grep -B3 "VIOLATION\|INCONCLUSIVE" sweep-$id-$tier-$seed.log | cut -c1-600; fi
  done
done
exit $rc_all
