#!/usr/bin/env python3
"""Regenerates the table of seeded changes in DESIGN.md section 7 (between the two marker comments) from seeded/*/."""
import json, glob, os, re
V = os.path.dirname(os.path.abspath(__file__))
rows = []
for d in sorted(glob.glob(os.path.join(V, 'seeded', '*'))):
    name = os.path.basename(d)
    if not os.path.exists(d + '/meta.json'): continue
    m = json.load(open(d + '/meta.json'))
    r = json.load(open(d + '/result.json')) if os.path.exists(d + '/result.json') else {}
    caught = [c for c, v in r.items() if v['exit'] == 1]
    missed = [c for c, v in r.items() if v['exit'] == 0]
    sig = [(v['signature'] or [''])[0].replace('--- ', '') for c, v in r.items() if v['exit'] == 1]
    note = ''
    if os.path.exists(d + '/note.txt'): note = open(d + '/note.txt').read().strip()
    summ = re.sub(r'\s+', ' ', m.get('summary', '')).replace('|', '/')
    rows.append('| %s | %s | %s | %s | %s |' % (name, summ[:260], ', '.join(caught) or '—', ('`' + sig[0][:90] + '`') if sig else '', (('not caught by ' + ', '.join(missed) + '. ') if missed else '') + note))
table = '| seeded change | what was changed (author\'s summary) | caught by | first signature | notes |\n|---|---|---|---|---|\n' + '\n'.join(rows) + '\n'
p = os.path.join(V, 'DESIGN.md')
s = open(p).read()
a, b = '<!-- SEEDED-TABLE-BEGIN -->', '<!-- SEEDED-TABLE-END -->'
s = s[:s.index(a) + len(a)] + '\n' + table + s[s.index(b):]
open(p, 'w').write(s)
print(len(rows), 'rows')
